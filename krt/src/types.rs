//! Element types used by the harnesses, each with a drop ledger where it owns something.

use crate::MAXN;

/// Per-slot drop counts of input-side (`T`) and output-side (`U`) elements, and totals (the
/// totals are the only ledger zero-size elements can have).
pub static mut T_DROPS: [u8; MAXN] = [0; MAXN];
pub static mut U_DROPS: [u8; MAXN] = [0; MAXN];
pub static mut T_TOTAL: usize = 0;
pub static mut U_TOTAL: usize = 0;

pub unsafe fn reset_ledgers() {
    T_DROPS = [0; MAXN];
    U_DROPS = [0; MAXN];
    T_TOTAL = 0;
    U_TOTAL = 0;
}

pub trait Elem: Sized {
    /// carries an observable value
    const HAS_KEY: bool;
    /// carries its slot number and has a per-slot drop ledger
    const TRACKED: bool;
    /// drops are counted (totals)
    const COUNTED: bool;
    const NAME: &'static str;
    fn make(slot: usize, key: u8) -> Self;
    fn key(&self) -> u8;
    fn set_key(&mut self, k: u8);
    fn slot(&self) -> usize;
}

macro_rules! ledger_drop {
    ($name:ident, $drops:ident, $total:ident) => {
        impl Drop for $name {
            fn drop(&mut self) {
                unsafe {
                    let s = self.slot as usize;
                    if s < MAXN {
                        $drops[s] = $drops[s].wrapping_add(1);
                    }
                    $total += 1;
                }
            }
        }
    };
}

// ---- plain data, 4 bytes / align 4
macro_rules! plain32 {
    ($name:ident) => {
        #[derive(Clone, Copy)]
        pub struct $name(pub u32);
        impl Elem for $name {
            const HAS_KEY: bool = true;
            const TRACKED: bool = false;
            const COUNTED: bool = false;
            const NAME: &'static str = stringify!($name);
            fn make(_slot: usize, key: u8) -> Self {
                $name(0xabcd_0000 | key as u32)
            }
            fn key(&self) -> u8 {
                self.0 as u8
            }
            fn set_key(&mut self, k: u8) {
                self.0 = (self.0 & !0xff) | k as u32;
            }
            fn slot(&self) -> usize {
                0
            }
        }
    };
}
plain32!(P32T);
plain32!(P32U);

// ---- tracked droppable, 4 bytes / align 2
macro_rules! tracked {
    ($name:ident, $drops:ident, $total:ident) => {
        #[repr(C)]
        pub struct $name {
            pub slot: u8,
            pub key: u8,
            pub pad: u16,
        }
        ledger_drop!($name, $drops, $total);
        impl Elem for $name {
            const HAS_KEY: bool = true;
            const TRACKED: bool = true;
            const COUNTED: bool = true;
            const NAME: &'static str = stringify!($name);
            fn make(slot: usize, key: u8) -> Self {
                $name { slot: slot as u8, key, pad: 0x7777 }
            }
            fn key(&self) -> u8 {
                self.key
            }
            fn set_key(&mut self, k: u8) {
                self.key = k;
            }
            fn slot(&self) -> usize {
                self.slot as usize
            }
        }
    };
}
tracked!(TrT, T_DROPS, T_TOTAL);
tracked!(TrU, U_DROPS, U_TOTAL);

// ---- heap owner, 16 bytes / align 8
macro_rules! heap {
    ($name:ident, $drops:ident, $total:ident) => {
        pub struct $name {
            pub b: Box<u8>,
            pub slot: u8,
        }
        ledger_drop!($name, $drops, $total);
        impl Elem for $name {
            const HAS_KEY: bool = true;
            const TRACKED: bool = true;
            const COUNTED: bool = true;
            const NAME: &'static str = stringify!($name);
            fn make(slot: usize, key: u8) -> Self {
                $name { b: Box::new(key), slot: slot as u8 }
            }
            fn key(&self) -> u8 {
                *self.b
            }
            fn set_key(&mut self, k: u8) {
                *self.b = k;
            }
            fn slot(&self) -> usize {
                self.slot as usize
            }
        }
    };
}
heap!(HeapT, T_DROPS, T_TOTAL);
heap!(HeapU, U_DROPS, U_TOTAL);

// ---- zero-size with a destructor
macro_rules! zst {
    ($name:ident, $total:ident) => {
        pub struct $name;
        impl Drop for $name {
            fn drop(&mut self) {
                unsafe {
                    $total += 1;
                }
            }
        }
        impl Elem for $name {
            const HAS_KEY: bool = false;
            const TRACKED: bool = false;
            const COUNTED: bool = true;
            const NAME: &'static str = stringify!($name);
            fn make(_slot: usize, _key: u8) -> Self {
                $name
            }
            fn key(&self) -> u8 {
                0
            }
            fn set_key(&mut self, _k: u8) {}
            fn slot(&self) -> usize {
                0
            }
        }
    };
}
zst!(ZT, T_TOTAL);
zst!(ZU, U_TOTAL);

// ---- zero-size, alignment 8, with a destructor (two zero-size types can still differ in alignment)
macro_rules! zst_a8 {
    ($name:ident, $total:ident) => {
        #[repr(align(8))]
        pub struct $name;
        impl Drop for $name {
            fn drop(&mut self) {
                unsafe {
                    $total += 1;
                }
            }
        }
        impl Elem for $name {
            const HAS_KEY: bool = false;
            const TRACKED: bool = false;
            const COUNTED: bool = true;
            const NAME: &'static str = stringify!($name);
            fn make(_slot: usize, _key: u8) -> Self {
                $name
            }
            fn key(&self) -> u8 {
                0
            }
            fn set_key(&mut self, _k: u8) {}
            fn slot(&self) -> usize {
                0
            }
        }
    };
}
zst_a8!(ZA8T, T_TOTAL);
zst_a8!(ZA8U, U_TOTAL);

// ---- large element, 64 bytes / align 1
macro_rules! big {
    ($name:ident, $drops:ident, $total:ident) => {
        #[repr(C)]
        pub struct $name {
            pub slot: u8,
            pub key: u8,
            pub rest: [u8; 62],
        }
        ledger_drop!($name, $drops, $total);
        impl Elem for $name {
            const HAS_KEY: bool = true;
            const TRACKED: bool = true;
            const COUNTED: bool = true;
            const NAME: &'static str = stringify!($name);
            fn make(slot: usize, key: u8) -> Self {
                let mut rest = [0x11u8; 62];
                rest[61] = key;
                $name { slot: slot as u8, key, rest }
            }
            fn key(&self) -> u8 {
                // both ends of the element must have travelled together
                if self.rest[61] == self.key {
                    self.key
                } else {
                    !self.key
                }
            }
            fn set_key(&mut self, k: u8) {
                self.key = k;
                self.rest[61] = k;
            }
            fn slot(&self) -> usize {
                self.slot as usize
            }
        }
    };
}
big!(BigT, T_DROPS, T_TOTAL);
big!(BigU, U_DROPS, U_TOTAL);

// ---- over-aligned element, 16 bytes / align 16
macro_rules! over16 {
    ($name:ident, $drops:ident, $total:ident) => {
        #[repr(C, align(16))]
        pub struct $name {
            pub slot: u8,
            pub key: u8,
        }
        ledger_drop!($name, $drops, $total);
        impl Elem for $name {
            const HAS_KEY: bool = true;
            const TRACKED: bool = true;
            const COUNTED: bool = true;
            const NAME: &'static str = stringify!($name);
            fn make(slot: usize, key: u8) -> Self {
                $name { slot: slot as u8, key }
            }
            fn key(&self) -> u8 {
                self.key
            }
            fn set_key(&mut self, k: u8) {
                self.key = k;
            }
            fn slot(&self) -> usize {
                self.slot as usize
            }
        }
    };
}
over16!(O16T, T_DROPS, T_TOTAL);
over16!(O16U, U_DROPS, U_TOTAL);

// ---- targets for the refusal matrix (C10); all tracked on the U side
// 6 bytes / align 2 : size differs from TrT, alignment equal
#[repr(C)]
pub struct Tr6U {
    pub slot: u8,
    pub key: u8,
    pub pad: [u16; 2],
}
ledger_drop!(Tr6U, U_DROPS, U_TOTAL);
// 4 bytes / align 4 : size equal to TrT, alignment differs
#[repr(C)]
pub struct Tr4A4U {
    pub w: u32,
    // slot/key live in w
}
impl Drop for Tr4A4U {
    fn drop(&mut self) {
        unsafe {
            let s = (self.w & 0xff) as usize;
            if s < MAXN {
                U_DROPS[s] = U_DROPS[s].wrapping_add(1);
            }
            U_TOTAL += 1;
        }
    }
}
// 1 byte / align 1 : vs ZT size differs, alignment equal
pub struct P8U(pub u8);

macro_rules! simple_elem {
    ($name:ident, $mk:expr, $key:expr, $slot:expr) => {
        impl Elem for $name {
            const HAS_KEY: bool = true;
            const TRACKED: bool = false;
            const COUNTED: bool = false;
            const NAME: &'static str = stringify!($name);
            fn make(slot: usize, key: u8) -> Self {
                $mk(slot, key)
            }
            fn key(&self) -> u8 {
                $key(self)
            }
            fn set_key(&mut self, _k: u8) {}
            fn slot(&self) -> usize {
                $slot(self)
            }
        }
    };
}
simple_elem!(
    Tr6U,
    |slot: usize, key: u8| Tr6U { slot: slot as u8, key, pad: [0; 2] },
    |s: &Tr6U| s.key,
    |s: &Tr6U| s.slot as usize
);
simple_elem!(
    Tr4A4U,
    |slot: usize, key: u8| Tr4A4U { w: (slot as u32 & 0xff) | ((key as u32) << 8) },
    |s: &Tr4A4U| (s.w >> 8) as u8,
    |s: &Tr4A4U| (s.w & 0xff) as usize
);
simple_elem!(P8U, |_slot: usize, key: u8| P8U(key), |s: &P8U| s.0, |_s: &P8U| 0usize);

// [u8;4] vs u32: same size, different alignment, plain data
#[derive(Clone, Copy)]
pub struct B4T(pub [u8; 4]);
simple_elem!(B4T, |_slot: usize, key: u8| B4T([key, 1, 2, 3]), |s: &B4T| s.0[0], |_s: &B4T| 0usize);

// reverse directions of the refusal matrix (source larger / more aligned than target)
#[derive(Clone, Copy)]
pub struct B4U(pub [u8; 4]);
simple_elem!(B4U, |_slot: usize, key: u8| B4U([key, 1, 2, 3]), |s: &B4U| s.0[0], |_s: &B4U| 0usize);
#[repr(C)]
pub struct Tr6T {
    pub slot: u8,
    pub key: u8,
    pub pad: [u16; 2],
}
ledger_drop!(Tr6T, T_DROPS, T_TOTAL);
impl Elem for Tr6T {
    const HAS_KEY: bool = true;
    const TRACKED: bool = true;
    const COUNTED: bool = true;
    const NAME: &'static str = "Tr6T";
    fn make(slot: usize, key: u8) -> Self {
        Tr6T { slot: slot as u8, key, pad: [0; 2] }
    }
    fn key(&self) -> u8 {
        self.key
    }
    fn set_key(&mut self, k: u8) {
        self.key = k;
    }
    fn slot(&self) -> usize {
        self.slot as usize
    }
}

// ---- 4 bytes / align 4 droppable, to pair with the plain 4/4 type in either direction
macro_rules! tracked4 {
    ($name:ident, $drops:ident, $total:ident) => {
        #[repr(C, align(4))]
        pub struct $name {
            pub slot: u8,
            pub key: u8,
            pub pad: u16,
        }
        ledger_drop!($name, $drops, $total);
        impl Elem for $name {
            const HAS_KEY: bool = true;
            const TRACKED: bool = true;
            const COUNTED: bool = true;
            const NAME: &'static str = stringify!($name);
            fn make(slot: usize, key: u8) -> Self {
                $name { slot: slot as u8, key, pad: 0x5555 }
            }
            fn key(&self) -> u8 {
                self.key
            }
            fn set_key(&mut self, k: u8) {
                self.key = k;
            }
            fn slot(&self) -> usize {
                self.slot as usize
            }
        }
    };
}
tracked4!(Tr4T, T_DROPS, T_TOTAL);
tracked4!(Tr4U, U_DROPS, U_TOTAL);
