//! Native replay of a solver counterexample against the real `truc_runtime`.
//! usage: replay <file>   (line 1: harness name; following lines: one nondeterministic
//! value per line as comma-separated little-endian bytes, in the order the harness draws them)
#![cfg_attr(kani, allow(unused))]
#[cfg(kani)]
fn main() {}

#[cfg(not(kani))]
mod native {
use std::alloc::{GlobalAlloc, Layout, System};

struct Counting;
static mut REUSED: bool = false;
static mut LIVE: bool = true;

unsafe impl GlobalAlloc for Counting {
    unsafe fn alloc(&self, l: Layout) -> *mut u8 {
        let p = System.alloc(l);
        if krt::BUF_PTR != 0 && p as usize == krt::BUF_PTR && !LIVE {
            REUSED = true;
        }
        p
    }
    unsafe fn dealloc(&self, p: *mut u8, l: Layout) {
        if krt::BUF_PTR != 0 && p as usize == krt::BUF_PTR && !REUSED {
            krt::BUF_FREES += 1;
            if l.size() != krt::BUF_BYTES || l.align() != krt::BUF_ALIGN {
                krt::BUF_BAD_LAYOUT = true;
            }
            LIVE = false;
        }
        System.dealloc(p, l)
    }
}

#[global_allocator]
static A: Counting = Counting;

pub fn main() {
    let path = std::env::args().nth(1).expect("replay file");
    let text = std::fs::read_to_string(&path).expect("read replay file");
    let mut lines = text.lines();
    let name = lines.next().expect("harness name").trim().to_string();
    let mut q = Vec::new();
    for l in lines {
        let l = l.trim();
        if l.is_empty() || l.starts_with('#') {
            continue;
        }
        q.push(l.split(',').map(|b| b.trim().parse::<u8>().expect("byte")).collect::<Vec<u8>>());
    }
    *krt::nd::QUEUE.lock().unwrap() = q;
    std::panic::set_hook(Box::new(|info| {
        use std::io::Write;
        let msg = if let Some(s) = info.payload().downcast_ref::<&str>() {
            s.to_string()
        } else if let Some(s) = info.payload().downcast_ref::<String>() {
            s.clone()
        } else {
            "panic with a non-string payload".to_string()
        };
        println!("PANIC: {}", msg.replace('\n', " "));
        let _ = std::io::stdout().flush();
    }));
    unsafe {
        LIVE = true;
        REUSED = false;
    }
    if !krt::harness::run_by_name(&name) {
        println!("REPLAY-ERROR unknown harness {}", name);
        std::process::exit(3);
    }
    if *krt::nd::ASSUME_BROKEN.lock().unwrap() {
        println!("ASSUME_BROKEN");
    }
    for r in krt::nd::REACHED.lock().unwrap().iter() {
        println!("REACHED: {}", r);
    }
    let fails = krt::nd::FAILS.lock().unwrap();
    println!("REPLAY-DONE fails={}", fails.len());
}
}

#[cfg(not(kani))]
fn main() {
    native::main()
}
