//! Nondeterminism source: `kani::any()` under Kani, a replay queue natively.

#[cfg(kani)]
pub mod imp {
    pub fn u8() -> u8 {
        kani::any()
    }
    pub fn u32() -> u32 {
        kani::any()
    }
    pub fn usize() -> usize {
        kani::any()
    }
    pub fn bool() -> bool {
        kani::any()
    }
    pub fn assume(c: bool) {
        kani::assume(c)
    }
}

#[cfg(not(kani))]
pub mod imp {
    use std::sync::Mutex;
    pub static QUEUE: Mutex<Vec<Vec<u8>>> = Mutex::new(Vec::new());
    pub static FAILS: Mutex<Vec<String>> = Mutex::new(Vec::new());
    pub static REACHED: Mutex<Vec<String>> = Mutex::new(Vec::new());
    pub static ASSUME_BROKEN: Mutex<bool> = Mutex::new(false);

    fn pop(n: usize) -> u64 {
        let mut q = QUEUE.lock().unwrap();
        if q.is_empty() {
            return 0;
        }
        let v = q.remove(0);
        let mut x = 0u64;
        for (i, b) in v.iter().enumerate().take(n.min(8)) {
            x |= (*b as u64) << (8 * i);
        }
        x
    }
    pub fn u8() -> u8 {
        pop(1) as u8
    }
    pub fn u32() -> u32 {
        pop(4) as u32
    }
    pub fn usize() -> usize {
        pop(8) as usize
    }
    pub fn bool() -> bool {
        pop(1) & 1 == 1
    }
    pub fn assume(c: bool) {
        if !c {
            *ASSUME_BROKEN.lock().unwrap() = true;
        }
    }
}

pub use imp::*;

#[cfg(not(kani))]
pub fn fail(label: &str) {
    use std::io::Write;
    let mut fails = imp::FAILS.lock().unwrap();
    if !fails.iter().any(|f| f == label) {
        println!("FAIL: {}", label);
        let _ = std::io::stdout().flush();
        fails.push(label.to_string());
    }
}
#[cfg(not(kani))]
pub fn reached(label: &str) {
    imp::REACHED.lock().unwrap().push(label.to_string());
}
