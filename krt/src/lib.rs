//! krt — solver-decided harnesses over `truc_runtime::convert` (C08, C09, C10).
//!
//! One source, two builds:
//!  * under Kani (`cfg(kani)`): every `nd::*` is `kani::any()`, `chk!` is an assertion
//!    decided by CBMC, `catch_unwind`/`resume_unwind`/deallocation are replaced by the
//!    models below through `#[kani::stub]`;
//!  * natively (`cfg(not(kani))`, binary `replay`): every `nd::*` pops a value from a
//!    replay file written from the solver's counterexample, `chk!` records failed labels,
//!    the converter really panics, and a counting global allocator observes the release
//!    of the vector's buffer.
#![allow(static_mut_refs, dead_code, unused_imports, unused_variables, unused_mut)]
#![allow(clippy::all)]

extern crate alloc;

use truc_runtime::convert::{
    convert_vec_in_place, try_convert_vec_in_place, VecElementConversionResult as R,
};

pub mod nd;
pub mod types;

use types::*;

pub const MAXN: usize = 8;
pub const NONE: usize = usize::MAX;

#[macro_export]
macro_rules! chk {
    ($cond:expr, $label:expr) => {{
        #[cfg(kani)]
        {
            assert!($cond, $label);
        }
        #[cfg(not(kani))]
        {
            if !($cond) {
                $crate::nd::fail($label);
            }
        }
    }};
}

#[macro_export]
macro_rules! reach {
    ($label:expr) => {{
        #[cfg(kani)]
        {
            kani::cover!(true, $label);
        }
        #[cfg(not(kani))]
        {
            $crate::nd::reached($label);
        }
    }};
}

// ---------------------------------------------------------------- harness state
pub static mut N_IN: usize = 0;
pub static mut N_CALLS: usize = 0;
pub static mut PRODUCED: usize = 0;
pub static mut STOPPED: bool = false;
pub static mut KEEP: [bool; MAXN] = [false; MAXN];
pub static mut MODIFY: [bool; MAXN] = [false; MAXN];
pub static mut IN_KEYS: [u8; MAXN] = [0; MAXN];
pub static mut EXP_SLOT: [usize; MAXN] = [0; MAXN];
pub static mut EXP_KEY: [u8; MAXN] = [0; MAXN];
pub static mut MASK: u8 = 0;
pub static mut FAIL_AT: usize = NONE;
pub static mut FAIL_PANIC: bool = false;
pub static mut FAIL_PHASE: u8 = 0;
pub static mut ERR_TAG: u32 = 0;
/// Set by the converter model when it "panics" (Kani build only).
pub static mut PANIC_NOW: bool = false;
/// Buffer of the input vector (0 = no allocation) and how often it was released.
pub static mut BUF_PTR: usize = 0;
pub static mut BUF_FREES: usize = 0;
/// Size in bytes / alignment the buffer was allocated with, and whether a release used another layout.
pub static mut BUF_BYTES: usize = 0;
pub static mut BUF_ALIGN: usize = 1;
pub static mut BUF_BAD_LAYOUT: bool = false;
/// resume_unwind model: set when the function re-raises, with the payload tag it carried.
pub static mut RESUMED: bool = false;
pub static mut RESUMED_TAG: u32 = 0;
pub static mut RESUMED_IS_PAYLOAD: bool = false;

#[derive(Debug, PartialEq, Eq)]
pub struct ConvErr {
    pub tag: u32,
}

pub struct Payload {
    pub tag: u32,
}

pub unsafe fn reset() {
    N_IN = 0;
    N_CALLS = 0;
    PRODUCED = 0;
    STOPPED = false;
    KEEP = [false; MAXN];
    MODIFY = [false; MAXN];
    IN_KEYS = [0; MAXN];
    EXP_SLOT = [0; MAXN];
    EXP_KEY = [0; MAXN];
    MASK = 0;
    FAIL_AT = NONE;
    FAIL_PANIC = false;
    FAIL_PHASE = 0;
    ERR_TAG = 0;
    PANIC_NOW = false;
    BUF_PTR = 0;
    BUF_FREES = 0;
    BUF_BYTES = 0;
    BUF_ALIGN = 1;
    BUF_BAD_LAYOUT = false;
    RESUMED = false;
    RESUMED_TAG = 0;
    RESUMED_IS_PAYLOAD = false;
    types::reset_ledgers();
}

/// The converter handed to the function under test. It is the *environment*: it checks what
/// it is given (C08: each input once, in order, with the most recent output) and decides
/// symbolically what to answer (keep / abandon / modify previous / fail / panic).
pub fn conv<T: Elem, U: Elem>(t: T, prev: Option<&mut U>) -> Result<R<U>, ConvErr> {
    unsafe {
        let k = N_CALLS;
        N_CALLS += 1;
        chk!(!STOPPED, "converter called again after it failed");
        chk!(k < N_IN, "converter called more often than there are elements");
        if k >= MAXN {
            return Ok(R::Abandonned);
        }
        if T::HAS_KEY {
            chk!(t.key() == IN_KEYS[k], "converter got a wrong input value (order / identity)");
        }
        if T::TRACKED {
            chk!(t.slot() == k, "converter got a wrong input element (order / identity)");
        }
        match prev {
            None => {
                chk!(PRODUCED == 0, "no previous output passed although one was produced");
            }
            Some(p) => {
                chk!(PRODUCED > 0, "a previous output passed before any was produced");
                if PRODUCED > 0 {
                    if U::HAS_KEY {
                        chk!(
                            p.key() == EXP_KEY[PRODUCED - 1],
                            "previous output passed is not the most recent one (value)"
                        );
                    }
                    if U::TRACKED {
                        chk!(
                            p.slot() == EXP_SLOT[PRODUCED - 1],
                            "previous output passed is not the most recent one (identity)"
                        );
                    }
                    if MODIFY[k] && U::HAS_KEY {
                        let nk = p.key() ^ 0x5a;
                        p.set_key(nk);
                        EXP_KEY[PRODUCED - 1] = nk;
                    }
                }
            }
        }
        if k == FAIL_AT {
            STOPPED = true;
            // The converter owns `t`; what it did with it / built before failing is its business.
            match FAIL_PHASE {
                0 => {}
                1 => {
                    drop(t);
                    fail_now();
                    return Err(ConvErr { tag: ERR_TAG });
                }
                _ => {
                    let u = U::make(k, 0);
                    drop(u);
                }
            }
            fail_now();
            return Err(ConvErr { tag: ERR_TAG });
        }
        if KEEP[k] {
            let key = t.key() ^ MASK;
            EXP_SLOT[PRODUCED] = k;
            EXP_KEY[PRODUCED] = key;
            PRODUCED += 1;
            Ok(R::Converted(U::make(k, key)))
        } else {
            Ok(R::Abandonned)
        }
    }
}

/// Failure signalling. Error return: nothing to do. Panic: natively a real panic carrying
/// `Payload`; under Kani the `catch_unwind` model turns the early `Err` return into the panic
/// outcome (the unwind edge of the converter call drops nothing that is live: the element was
/// moved into the call — re-checked on the MIR by the driver, see DESIGN §2.3).
unsafe fn fail_now() {
    if FAIL_PANIC {
        #[cfg(kani)]
        {
            PANIC_NOW = true;
        }
        #[cfg(not(kani))]
        {
            std::panic::panic_any(Payload { tag: ERR_TAG });
        }
    }
}

// ---------------------------------------------------------------- Kani models (stubs)
#[cfg(kani)]
pub mod models {
    use super::*;
    use core::alloc::Layout;
    use core::ptr::NonNull;
    use std::any::Any;
    use std::panic::UnwindSafe;

    /// Deallocation ghost: counts releases of the input vector's buffer, frees nothing.
    pub unsafe fn dealloc_ghost(ptr: NonNull<u8>, layout: Layout) {
        if BUF_PTR != 0 && ptr.as_ptr() as usize == BUF_PTR {
            BUF_FREES += 1;
            if layout.size() != BUF_BYTES || layout.align() != BUF_ALIGN {
                BUF_BAD_LAYOUT = true;
            }
        }
    }

    /// Panic model: the closure returns normally; if the converter signalled a panic the
    /// closure's result is discarded and the payload is returned instead.
    pub fn catch_unwind_model<F: FnOnce() -> Rt + UnwindSafe, Rt>(
        f: F,
    ) -> Result<Rt, Box<dyn Any + Send + 'static>> {
        let r = f();
        unsafe {
            if PANIC_NOW {
                core::mem::forget(r);
                Err(Box::new(Payload { tag: ERR_TAG }))
            } else {
                Ok(r)
            }
        }
    }

    /// Re-raise model: records that (and with what) the function re-raised, then ends the path.
    pub fn resume_unwind_model(payload: Box<dyn Any + Send>) -> ! {
        unsafe {
            RESUMED = true;
            match payload.downcast_ref::<Payload>() {
                Some(p) => {
                    RESUMED_IS_PAYLOAD = true;
                    RESUMED_TAG = p.tag;
                }
                None => {
                    RESUMED_IS_PAYLOAD = false;
                }
            }
            core::mem::forget(payload);
            super::harness::post_fail_checks();
            super::harness::resumed_payload_checks();
            reach!("panic arm: re-raise reached with post-conditions checked");
        }
        kani::assume(false);
        loop {}
    }
}

pub mod harness;
