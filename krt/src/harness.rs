//! Harness bodies (generic over the element type pair and the length bound) and their
//! instantiations. See DESIGN.md §2.3, C08–C10.

use crate::nd;
use crate::types::*;
use crate::*;

pub static mut T_TRACKED: bool = false;
pub static mut T_COUNTED: bool = false;
pub static mut U_TRACKED: bool = false;
pub static mut U_COUNTED: bool = false;
/// Length bound of the running instantiation (loops over ledgers stop there).
pub static mut N_BOUND: usize = 0;

unsafe fn symbolic_setup<T: Elem, U: Elem, const N: usize>(min_n: usize) -> Vec<T> {
    reset();
    T_TRACKED = T::TRACKED;
    T_COUNTED = T::COUNTED;
    U_TRACKED = U::TRACKED;
    U_COUNTED = U::COUNTED;
    N_BOUND = N;
    let n = nd::usize();
    nd::assume(n <= N && n >= min_n);
    N_IN = n;
    MASK = nd::u8();
    let mut i = 0;
    while i < N {
        KEEP[i] = nd::bool();
        MODIFY[i] = nd::bool();
        IN_KEYS[i] = nd::u8();
        i += 1;
    }
    // capacity: N (spare room beyond len) or, for the empty vector, possibly no allocation
    let no_alloc = nd::bool();
    let mut v: Vec<T> = if n == 0 && no_alloc { Vec::new() } else { Vec::with_capacity(N) };
    let mut i = 0;
    while i < N {
        if i < n {
            // in-capacity write (no growth path): capacity is N whenever n > 0
            core::ptr::write(v.as_mut_ptr().add(i), T::make(i, IN_KEYS[i]));
        }
        i += 1;
    }
    v.set_len(n);
    BUF_PTR = if core::mem::size_of::<T>() == 0 || v.capacity() == 0 { 0 } else { v.as_ptr() as usize };
    BUF_BYTES = v.capacity() * core::mem::size_of::<T>();
    BUF_ALIGN = core::mem::align_of::<T>();
    v
}

// -------------------------------------------------------------------------------- C08
pub fn success<T: Elem, U: Elem, const N: usize>() {
    unsafe {
        let v = symbolic_setup::<T, U, N>(0);
        let n = N_IN;
        let p0 = v.as_ptr() as usize;
        let c0 = v.capacity();
        FAIL_AT = NONE;
        let out: Vec<U> = match try_convert_vec_in_place::<T, U, _, ConvErr>(v, conv::<T, U>) {
            Ok(o) => o,
            Err(e) => {
                chk!(false, "C08: conversion with a never-failing converter returned Err");
                core::mem::forget(e);
                return;
            }
        };
        chk!(N_CALLS == n, "C08: converter not called exactly once per input element");
        chk!(out.len() == PRODUCED, "C08: result length differs from the number of converted elements");
        chk!(out.as_ptr() as usize == p0, "C08: result does not reuse the input allocation");
        chk!(out.capacity() == c0, "C08: result capacity differs from the input capacity");
        let mut j = 0;
        while j < N {
            if j < PRODUCED && j < out.len() {
                if U::HAS_KEY {
                    chk!(out[j].key() == EXP_KEY[j], "C08: result element has a wrong value");
                }
                if U::TRACKED {
                    chk!(out[j].slot() == EXP_SLOT[j], "C08: result element is the wrong element (order)");
                }
            }
            j += 1;
        }
        // every input was dropped exactly once (by the converter, which owns it), no output yet
        let mut i = 0;
        while i < N {
            if T::TRACKED {
                chk!(T_DROPS[i] == if i < n { 1 } else { 0 }, "C08: an input element was not dropped exactly once");
            }
            if U::TRACKED {
                chk!(U_DROPS[i] == 0, "C08: an output element was dropped before the result was released");
            }
            i += 1;
        }
        if T::COUNTED {
            chk!(T_TOTAL == n, "C08: number of input drops differs from the number of inputs");
        }
        if U::COUNTED {
            chk!(U_TOTAL == 0, "C08: outputs dropped before the result was released");
        }
        drop(out);
        if U::TRACKED {
            let mut s = 0;
            while s < N {
                let mut expected = 0u8;
                let mut j = 0;
                while j < N {
                    if j < PRODUCED && EXP_SLOT[j] == s {
                        expected += 1;
                    }
                    j += 1;
                }
                chk!(U_DROPS[s] == expected, "C08: dropping the result did not drop exactly the converted elements");
                s += 1;
            }
        }
        if U::COUNTED {
            chk!(U_TOTAL == PRODUCED, "C08: dropping the result dropped a wrong number of elements");
        }
        reach!("C08: end of success harness");
    }
}

/// Same through the non-`try` wrapper.
pub fn success_wrapper<T: Elem, U: Elem, const N: usize>() {
    unsafe {
        let v = symbolic_setup::<T, U, N>(0);
        let n = N_IN;
        let p0 = v.as_ptr() as usize;
        let c0 = v.capacity();
        FAIL_AT = NONE;
        let out: Vec<U> = convert_vec_in_place::<T, U, _>(v, |t, p| match conv::<T, U>(t, p) {
            Ok(r) => r,
            Err(e) => {
                core::mem::forget(e);
                R::Abandonned
            }
        });
        chk!(N_CALLS == n, "C08: (wrapper) converter not called exactly once per input element");
        chk!(out.len() == PRODUCED, "C08: (wrapper) result length differs from the number of converted elements");
        chk!(out.as_ptr() as usize == p0, "C08: (wrapper) result does not reuse the input allocation");
        chk!(out.capacity() == c0, "C08: (wrapper) result capacity differs");
        let mut j = 0;
        while j < N {
            if j < PRODUCED && j < out.len() && U::HAS_KEY {
                chk!(out[j].key() == EXP_KEY[j], "C08: (wrapper) result element has a wrong value");
            }
            j += 1;
        }
        core::mem::forget(out);
        reach!("C08: end of wrapper harness");
    }
}

// -------------------------------------------------------------------------------- C09
/// Post-conditions of a failed conversion; reads the ledgers only (called from the harness
/// after an `Err`, and from the re-raise model on the panic arm).
pub fn post_fail_checks() {
    unsafe {
        chk!(N_CALLS == FAIL_AT.wrapping_add(1), "C09: converter called again (or not at all) after its failure");
        let n = N_IN;
        let extra = FAIL_PHASE >= 2;
        let mut s = 0;
        while s < N_BOUND {
            if T_TRACKED {
                chk!(
                    T_DROPS[s] == if s < n { 1 } else { 0 },
                    "C09: an input element was not dropped exactly once"
                );
            }
            if U_TRACKED {
                let mut expected = 0u8;
                let mut j = 0;
                while j < N_BOUND {
                    if j < PRODUCED && EXP_SLOT[j] == s {
                        expected += 1;
                    }
                    j += 1;
                }
                if extra && s == FAIL_AT {
                    expected += 1;
                }
                chk!(U_DROPS[s] == expected, "C09: an output produced so far was not dropped exactly once");
            }
            s += 1;
        }
        if T_COUNTED {
            chk!(T_TOTAL == n, "C09: number of input drops differs from the number of inputs");
        }
        if U_COUNTED {
            chk!(
                U_TOTAL == PRODUCED + if extra { 1 } else { 0 },
                "C09: number of output drops differs from the number of outputs produced"
            );
        }
        if BUF_PTR != 0 {
            chk!(BUF_FREES == 1, "C09: the vector's allocation was not released exactly once");
            chk!(!BUF_BAD_LAYOUT, "C09: the vector's allocation was released with a layout other than the one it was allocated with");
        } else {
            chk!(BUF_FREES == 0, "C09: a release of a non-existing allocation was observed");
        }
    }
}

pub fn fail_arm<T: Elem, U: Elem, const N: usize>() {
    unsafe {
        let v = symbolic_setup::<T, U, N>(1);
        let n = N_IN;
        let f = nd::usize();
        nd::assume(f < n);
        FAIL_AT = f;
        FAIL_PANIC = nd::bool();
        let ph = nd::u8();
        nd::assume(ph <= 2);
        FAIL_PHASE = ph;
        ERR_TAG = nd::u32();

        #[cfg(kani)]
        {
            let r = try_convert_vec_in_place::<T, U, _, ConvErr>(v, conv::<T, U>);
            if FAIL_PANIC {
                chk!(false, "C09: converter panicked but the conversion returned instead of re-raising");
                core::mem::forget(r);
            } else {
                match r {
                    Ok(o) => {
                        chk!(false, "C09: converter failed but the conversion returned Ok");
                        core::mem::forget(o);
                    }
                    Err(e) => {
                        chk!(e.tag == ERR_TAG, "C09: the caller did not receive the converter's error value");
                        post_fail_checks();
                        reach!("C09: error arm: Err returned with post-conditions checked");
                    }
                }
            }
        }
        #[cfg(not(kani))]
        {
            let r = std::panic::catch_unwind(std::panic::AssertUnwindSafe(|| {
                try_convert_vec_in_place::<T, U, _, ConvErr>(v, conv::<T, U>)
            }));
            match r {
                Err(payload) => {
                    chk!(FAIL_PANIC, "C09: conversion panicked although the converter only returned an error");
                    match payload.downcast_ref::<Payload>() {
                        Some(p) => chk!(p.tag == ERR_TAG, "C09: panic payload altered"),
                        None => chk!(false, "C09: the caller did not receive the converter's panic payload"),
                    }
                    post_fail_checks();
                    reach!("panic arm: re-raise reached with post-conditions checked");
                }
                Ok(Ok(o)) => {
                    chk!(false, "C09: converter failed but the conversion returned Ok");
                    core::mem::forget(o);
                }
                Ok(Err(e)) => {
                    chk!(!FAIL_PANIC, "C09: converter panicked but the conversion returned instead of re-raising");
                    chk!(e.tag == ERR_TAG, "C09: the caller did not receive the converter's error value");
                    post_fail_checks();
                    reach!("C09: error arm: Err returned with post-conditions checked");
                }
            }
        }
    }
}

/// Under Kani the re-raise model calls this after `post_fail_checks`.
pub fn resumed_payload_checks() {
    unsafe {
        chk!(FAIL_PANIC, "C09: conversion re-raised a panic although the converter only returned an error");
        chk!(RESUMED_IS_PAYLOAD, "C09: the caller did not receive the converter's panic payload");
        chk!(RESUMED_TAG == ERR_TAG, "C09: panic payload altered");
    }
}

// -------------------------------------------------------------------------------- C10
pub fn conv_never<T: Elem, U: Elem>(t: T, _prev: Option<&mut U>) -> Result<R<U>, ConvErr> {
    unsafe {
        N_CALLS += 1;
    }
    chk!(false, "C10: converter called although the element types mismatch");
    core::mem::forget(t);
    Ok(R::Abandonned)
}

pub fn refuse<T: Elem, U: Elem, const N: usize>() {
    unsafe {
        let v = symbolic_setup::<T, U, N>(0);
        let n = N_IN;
        #[cfg(kani)]
        {
            let r = try_convert_vec_in_place::<T, U, _, ConvErr>(v, conv_never::<T, U>);
            chk!(false, "C10: conversion between mismatching element types was not refused");
            core::mem::forget(r);
        }
        #[cfg(not(kani))]
        {
            let r = std::panic::catch_unwind(std::panic::AssertUnwindSafe(|| {
                try_convert_vec_in_place::<T, U, _, ConvErr>(v, conv_never::<T, U>)
            }));
            match r {
                Ok(r) => {
                    chk!(false, "C10: conversion between mismatching element types was not refused");
                    core::mem::forget(r);
                }
                Err(_) => {
                    chk!(N_CALLS == 0, "C10: converter called although the element types mismatch");
                    if T::COUNTED {
                        chk!(T_TOTAL == n, "C10: refused input vector not dropped element by element exactly once");
                    }
                    if T::TRACKED {
                        let mut i = 0;
                        while i < N {
                            chk!(
                                T_DROPS[i] == if i < n { 1 } else { 0 },
                                "C10: refused input vector not dropped element by element exactly once"
                            );
                            i += 1;
                        }
                    }
                    reach!("C10: refusal observed");
                }
            }
        }
    }
}

// -------------------------------------------------------------------------------- vacuity twins
/// Must come back violated: proves the success harness reaches its end on a feasible path.
pub fn twin_false<T: Elem, U: Elem, const N: usize>() {
    success::<T, U, N>();
    chk!(false, "TWIN: deliberately false final check");
}

pub fn fail_twin<T: Elem, U: Elem, const N: usize>() {
    fail_arm::<T, U, N>();
    chk!(false, "TWIN: deliberately false final check");
}

// -------------------------------------------------------------------------------- instantiations
macro_rules! instances {
    ($( $name:ident : $kind:ident < $t:ty, $u:ty, $n:literal > unwind $uw:literal ; )*) => {
        #[cfg(kani)]
        mod proofs {
            use super::*;
            use std::panic::catch_unwind as cu;
            use std::panic::resume_unwind as ru;
            $( instances!(@proof $name, $kind, $t, $u, $n, $uw); )*
        }
        /// Native dispatch for the replay binary.
        pub fn run_by_name(name: &str) -> bool {
            match name {
                $( stringify!($name) => { $kind::<$t, $u, $n>(); true } )*
                _ => false,
            }
        }
        pub const NAMES: &[(&str, &str)] = &[ $( (stringify!($name), stringify!($kind)), )* ];
    };
    (@proof $name:ident, fail_twin, $t:ty, $u:ty, $n:literal, $uw:literal) => {
        #[kani::proof]
        #[kani::unwind($uw)]
        #[kani::stub(alloc::alloc::dealloc_nonnull, crate::models::dealloc_ghost)]
        #[kani::stub(cu, crate::models::catch_unwind_model)]
        #[kani::stub(ru, crate::models::resume_unwind_model)]
        fn $name() { fail_twin::<$t, $u, $n>() }
    };
    (@proof $name:ident, fail_arm, $t:ty, $u:ty, $n:literal, $uw:literal) => {
        #[kani::proof]
        #[kani::unwind($uw)]
        #[kani::stub(alloc::alloc::dealloc_nonnull, crate::models::dealloc_ghost)]
        #[kani::stub(cu, crate::models::catch_unwind_model)]
        #[kani::stub(ru, crate::models::resume_unwind_model)]
        fn $name() { fail_arm::<$t, $u, $n>() }
    };
    (@proof $name:ident, $kind:ident, $t:ty, $u:ty, $n:literal, $uw:literal) => {
        #[kani::proof]
        #[kani::unwind($uw)]
        #[kani::stub(cu, crate::models::catch_unwind_model)]
        fn $name() { $kind::<$t, $u, $n>() }
    };
}

instances! {
    // ---- C08, quick (n <= 3)
    c08_plain_n3:    success<P32T, P32U, 3> unwind 5;
    c08_tracked_n3:  success<TrT, TrU, 3> unwind 5;
    c08_heap_n3:     success<HeapT, HeapU, 3> unwind 5;
    c08_zst_n3:      success<ZT, ZU, 3> unwind 5;
    c08_zst_a8_n3:   success<ZA8T, ZA8U, 3> unwind 5;
    c08_big_n2:      success<BigT, BigU, 2> unwind 4;
    c08_over16_n3:   success<O16T, O16U, 3> unwind 5;
    c08_wrapper_n2:  success_wrapper<TrT, TrU, 2> unwind 4;
    c08_twin_n3:     twin_false<TrT, TrU, 3> unwind 5;
    // ---- C08, thorough (n <= 5)
    c08_plain_n5:    success<P32T, P32U, 5> unwind 7;
    c08_tracked_n5:  success<TrT, TrU, 5> unwind 7;
    c08_heap_n5:     success<HeapT, HeapU, 5> unwind 7;
    c08_zst_n5:      success<ZT, ZU, 5> unwind 7;
    c08_big_n4:      success<BigT, BigU, 4> unwind 6;
    c08_over16_n5:   success<O16T, O16U, 5> unwind 7;
    c08_plain_n7:    success<P32T, P32U, 7> unwind 9;
    c08_tracked_n7:  success<TrT, TrU, 7> unwind 9;
    c08_zst_n7:      success<ZT, ZU, 7> unwind 9;
    // ---- C09, quick
    c09_plain_n3:    fail_arm<P32T, P32U, 3> unwind 5;
    c09_tracked_n3:  fail_arm<TrT, TrU, 3> unwind 5;
    c09_heap_n3:     fail_arm<HeapT, HeapU, 3> unwind 5;
    c09_zst_n3:      fail_arm<ZT, ZU, 3> unwind 5;
    c09_over16_n3:   fail_arm<O16T, O16U, 3> unwind 5;
    c09_big_n2:      fail_arm<BigT, BigU, 2> unwind 4;
    c09_plain_to_tracked_n3: fail_arm<P32T, Tr4U, 3> unwind 5;
    c09_tracked_to_plain_n3: fail_arm<Tr4T, P32U, 3> unwind 5;
    c08_plain_to_tracked_n3: success<P32T, Tr4U, 3> unwind 5;
    c08_tracked_to_plain_n3: success<Tr4T, P32U, 3> unwind 5;
    c09_twin_n3:     fail_twin<TrT, TrU, 3> unwind 5;
    // ---- C09, thorough
    c09_plain_n5:    fail_arm<P32T, P32U, 5> unwind 7;
    c09_tracked_n5:  fail_arm<TrT, TrU, 5> unwind 7;
    c09_heap_n5:     fail_arm<HeapT, HeapU, 5> unwind 7;
    c09_zst_n5:      fail_arm<ZT, ZU, 5> unwind 7;
    c09_over16_n5:   fail_arm<O16T, O16U, 5> unwind 7;
    c09_big_n4:      fail_arm<BigT, BigU, 4> unwind 6;
    c09_tracked_n7:  fail_arm<TrT, TrU, 7> unwind 9;
    c09_plain_to_tracked_n5: fail_arm<P32T, Tr4U, 5> unwind 7;
    // ---- C10: refusal matrix (rows: size equal / differs, columns: alignment equal / differs)
    c10_size_ne_align_eq_n3:   refuse<TrT, Tr6U, 3> unwind 5;
    c10_size_eq_align_ne_n3:   refuse<TrT, Tr4A4U, 3> unwind 5;
    c10_size_ne_align_ne_n3:   refuse<TrT, HeapU, 3> unwind 5;
    c10_zst_vs_byte_n3:        refuse<ZT, P8U, 3> unwind 5;
    c10_zst_vs_tracked_n3:     refuse<ZT, TrU, 3> unwind 5;
    c10_tracked_vs_zst_n3:     refuse<TrT, ZU, 3> unwind 5;
    c10_zst_align_1_to_8_n3:   refuse<ZT, ZA8U, 3> unwind 5;
    c10_zst_align_8_to_1_n3:   refuse<ZA8T, ZU, 3> unwind 5;
    c10_bytes4_vs_u32_n3:      refuse<B4T, P32U, 3> unwind 5;
    c10_heap_vs_over16_n3:     refuse<HeapT, O16U, 3> unwind 5;
    c10_rev_align_4_to_1_n3:   refuse<P32T, B4U, 3> unwind 5;
    c10_rev_align_16_to_8_n3:  refuse<O16T, HeapU, 3> unwind 5;
    c10_rev_size_6_to_4_n3:    refuse<Tr6T, TrU, 3> unwind 5;
    c10_size_ne_align_eq_n5:   refuse<TrT, Tr6U, 5> unwind 7;
    c10_size_eq_align_ne_n5:   refuse<TrT, Tr4A4U, 5> unwind 7;
    c10_zst_vs_tracked_n5:     refuse<ZT, TrU, 5> unwind 7;
}
