#!/bin/sh
# Offline setup: warm the builds the checks use (everything is rebuilt from /repo on every check anyway).
cd "$(dirname "$0")"
export CARGO_NET_OFFLINE=true
mkdir -p .build out evidence
cp -f /repo/Cargo.lock krt/Cargo.lock 2>/dev/null || true
cp -f /repo/Cargo.lock kgen/harness/Cargo.lock 2>/dev/null || true
(cd krt && cargo build --offline --target-dir ../.build/krt-native --bin replay >/dev/null 2>&1 || true)
(cd kgen/harness && cargo build --offline --target-dir ../../.build/kgen-native --bin replay >/dev/null 2>&1 || true)
exit 0
