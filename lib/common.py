"""Shared plumbing of the checks: paths, evidence files, known findings, verdict output."""
import json
import os
import re
import subprocess
import sys
import time

VERIF = os.path.dirname(os.path.dirname(os.path.abspath(__file__)))
REPO = os.environ.get("TRUC_REPO", "/repo")
BUILD = os.path.join(VERIF, ".build")
OUT = os.path.join(VERIF, "out")
EVIDENCE = os.path.join(VERIF, "evidence")
KNOWN = os.path.join(VERIF, "known_findings.txt")
NCPU = os.cpu_count() or 4

EXIT_OK, EXIT_VIOLATION, EXIT_INCONCLUSIVE = 0, 1, 2


def env_offline(extra=None):
    e = dict(os.environ)
    e["CARGO_NET_OFFLINE"] = "true"
    e.setdefault("CARGO_TERM_COLOR", "never")
    if extra:
        e.update(extra)
    return e


def seed():
    try:
        return int(os.environ.get("VERIF_SEED", "0"))
    except ValueError:
        return 0


def sh(cmd, cwd=None, env=None, timeout=None, check=False):
    """Run a command, return (rc, stdout+stderr, seconds)."""
    t0 = time.time()
    try:
        p = subprocess.run(cmd, cwd=cwd, env=env, timeout=timeout, stdout=subprocess.PIPE,
                           stderr=subprocess.STDOUT, text=True, errors="replace")
        rc, out = p.returncode, p.stdout
    except subprocess.TimeoutExpired as ex:
        rc, out = 124, (ex.stdout or "") if isinstance(ex.stdout, str) else (ex.stdout or b"").decode(errors="replace")
        out += "\n[timeout after %ss]" % timeout
    dt = time.time() - t0
    if check and rc != 0:
        raise RuntimeError("command failed (%s): %s\n%s" % (rc, cmd, out[-4000:]))
    return rc, out, dt


def repo_head():
    rc, out, _ = sh(["git", "-C", REPO, "rev-parse", "--short", "HEAD"])
    return out.strip() if rc == 0 else "unknown"


def repo_dirty():
    rc, out, _ = sh(["git", "-C", REPO, "status", "--porcelain", "--untracked-files=no"])
    return bool(out.strip())


# --------------------------------------------------------------------------- known findings
class Known:
    """known_findings.txt: lines
         finding: property=<id> key=<role-key> <free text>
         fixed: property=<id> <commit> <free text>
       A `finding` suppresses exactly the violations whose role key matches; `fixed` entries
       suppress nothing."""

    def __init__(self, path=KNOWN):
        self.findings = []
        self.fixed = []
        if os.path.exists(path):
            for line in open(path):
                line = line.strip()
                if not line or line.startswith("#"):
                    continue
                m = re.match(r"finding:\s+property=(\S+)\s+key=(\S+)\s+(.*)", line)
                if m:
                    self.findings.append({"property": m.group(1), "key": m.group(2), "text": m.group(3)})
                    continue
                m = re.match(r"fixed:\s+property=(\S+)\s+(\S+)\s+(.*)", line)
                if m:
                    self.fixed.append({"property": m.group(1), "commit": m.group(2), "text": m.group(3)})

    def for_property(self, pid):
        return [f for f in self.findings if f["property"] == pid]

    def match(self, pid, key):
        for f in self.findings:
            if f["property"] == pid and f["key"] == key:
                return f
        return None


# --------------------------------------------------------------------------- evidence
def write_evidence(pid, tier, coverage, wall_s, violations=0, assumptions=None, level="model_checking"):
    os.makedirs(EVIDENCE, exist_ok=True)
    ev = {
        "property_id": pid,
        "tier": tier,
        "seed": seed(),
        "level": level,
        "coverage": coverage,
        "assumptions": assumptions or [],
        "wall_s": round(wall_s, 2),
        "violations": violations,
    }
    path = os.path.join(EVIDENCE, "%s.json" % pid)
    tmp = path + ".tmp"
    with open(tmp, "w") as f:
        json.dump(ev, f, indent=1, sort_keys=True, default=str)
        f.write("\n")
    os.replace(tmp, path)
    return path


def replay_dir(pid):
    d = os.path.join(OUT, "replays", pid)
    os.makedirs(d, exist_ok=True)
    return d


class Verdict:
    """Collects what a check found and turns it into stdout lines + exit code."""

    def __init__(self, pid):
        self.pid = pid
        self.violations = []   # (replay_path, text)
        self.known = []        # text
        self.inconclusive = [] # text
        self.notes = []

    def violation(self, replay_path, text):
        self.violations.append((replay_path, text))

    def known_finding(self, text):
        self.known.append(text)

    def inconc(self, text):
        self.inconclusive.append(text)

    def note(self, text):
        self.notes.append(text)
        print(text, flush=True)

    def finish(self):
        for k in self.known:
            print("KNOWN-FINDING: property=%s %s" % (self.pid, k))
        for path, text in self.violations:
            print("VIOLATION property=%s replay=%s" % (self.pid, path))
            print("  " + text)
        for t in self.inconclusive:
            print("INCONCLUSIVE property=%s %s" % (self.pid, t))
        sys.stdout.flush()
        if self.violations:
            return EXIT_VIOLATION
        if self.inconclusive:
            return EXIT_INCONCLUSIVE
        print("OK property=%s held on everything explored" % self.pid)
        return EXIT_OK
