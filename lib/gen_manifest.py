#!/usr/bin/env python3
"""Regenerates MANIFEST.json from the table below (kept in one place so it stays valid)."""
import json, os, sys
HERE = os.path.dirname(os.path.dirname(os.path.abspath(__file__)))

CLAIMED = {}   # filled by register()
NA = {}

def claim(pid, engine, technique, text, note, design_ref, thorough=True):
    CLAIMED[pid] = {
        "property_id": pid,
        "quick_cmd": "./check %s --tier quick" % pid,
        **({"thorough_cmd": "./check %s --tier thorough" % pid} if thorough else {}),
        "evidence_file": "evidence/%s.json" % pid,
        "replay_cmd_template": "./check %s --replay {path}" % pid,
        "engine": engine,
        "level_claimed": {"category": "model_checking", "text": text, "design_ref": design_ref},
        "level_note": note,
        "technique": technique,
    }

def na(pid, reason):
    NA[pid] = {"property_id": pid, "reason": reason}

KANI_NOTE = ("Trusted: rustc MIR -> Kani 0.68 -> CBMC 6.11 (cadical) translation; the stubs and harness models listed in the "
             "evidence file; bounds as stated there. Counterexamples are replayed natively (dev and release) before being reported.")

claim("C08", "krt", "bounded model checking (Kani/CBMC) of the real convert.rs with symbolic length, values and keep/abandon pattern",
      "CBMC decides, for every vector length up to the bound and every keep/abandon/modify pattern and value assignment, that the result holds "
      "exactly the converter's outputs in order, in the input allocation with the input capacity, that the converter saw each input once, in order, "
      "with the most recent output, and that every input and kept output is dropped exactly once. Bounded (n<=3 quick, n<=5 thorough; six element "
      "type pairs), not a proof for longer vectors.", KANI_NOTE, "§2.3, §3 C08")
claim("C09", "krt", "bounded model checking (Kani/CBMC) with symbolic failure index, failure kind and converter phase; catch_unwind/resume_unwind/dealloc models",
      "CBMC decides, for every failure position, both failure kinds, three converter phases and every preceding pattern within the length bound, "
      "that each input and each produced output is dropped exactly once, the buffer is released exactly once, the converter is not called again and "
      "the caller gets the very error value / panic payload.", KANI_NOTE + " Panics are modelled (Kani has no unwinding): see assumptions.", "§2.3, §3 C09")
claim("C10", "krt", "bounded model checking (Kani/CBMC): refusal assertion must be the only failing check, converter and element drops unreachable",
      "For each pair of a layout matrix (size equal/unequal x alignment equal/unequal, zero-size vs non-zero) and every length within the bound, CBMC "
      "shows every path ends in the refusal assertion of the function before the converter or any element access is reachable.", KANI_NOTE, "§2.3, §3 C10")

PENDING = "check not built yet in this revision (engine under construction, see DESIGN.md); not claimed until its command exists"
for p in ["C01","C02","C03","C04","C05","C06","C07","C11","C12","C13","C14","C15","C16","C18","C19","C20"]:
    na(p, PENDING)
na("C17", "type-name printing/parsing through syn/quote over an unbounded type grammar with rustc's type identity as oracle: neither side is encodable for a solver; walking the grammar would be enumeration, not solving (DESIGN.md §6)")

def main():
    props = [json.loads(l)["id"] for l in open(os.path.join(HERE, "properties.jsonl"))]
    # later registrations (from lib/manifest_extra.py, if present) override the pending list
    extra = os.path.join(HERE, "lib", "manifest_extra.py")
    if os.path.exists(extra):
        exec(open(extra).read(), globals())
    for p in list(NA):
        if p in CLAIMED:
            del NA[p]
    assert set(props) == set(CLAIMED) | set(NA), (set(props) ^ (set(CLAIMED) | set(NA)))
    m = {
        "version": 1,
        "setup_cmd": "./setup.sh",
        "hooks": {
            "guard": "cfg(truc_verif)",
            "enable": "RUSTFLAGS='--cfg truc_verif' (set by ./check for the Kani builds that use the hooks)",
            "baseline_off_cmd": "cd /repo && cargo test --workspace --no-fail-fast --offline",
            "source_commits": HOOK_COMMITS,
            "add_only": True,
        },
        "engines": ENGINES,
        "checks": [CLAIMED[p] for p in props if p in CLAIMED],
        "not_applicable": [NA[p] for p in props if p in NA],
        "notes": "Solver-based checking of the real code only (Kani/CBMC over the compiled crates; z3 over rustc MIR). "
                 "Exit 0 held / 1 VIOLATION (natively replayed) / 2 inconclusive. See DESIGN.md.",
    }
    with open(os.path.join(HERE, "MANIFEST.json"), "w") as f:
        json.dump(m, f, indent=1)
        f.write("\n")

HOOK_COMMITS = []
ENGINES = [
    {"name": "krt", "path": "krt/", "serves_properties": ["C08", "C09", "C10"],
     "kind_free_text": "Kani proof harnesses over truc_runtime::convert with native replay binary"},
]
if __name__ == "__main__":
    main()
