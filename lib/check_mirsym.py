"""C01 C02 C03 C13 (layout family) — symbolic execution of the builder / strategy MIR of /repo with z3.

Engine: /verif/mirsym (own interpreter of rustc's stable-MIR dump). Verdicts: z3 over every path of
one close from an arbitrary state satisfying the representation invariant (STEP) and of bounded
histories from the empty builder (HIST); counterexamples are replayed natively through the public
API (harness/layout) before being reported."""
import json
import os
import random
import re
import sys
import time

from common import (BUILD, EXIT_INCONCLUSIVE, Known, REPO, VERIF, Verdict, env_offline, repo_head, replay_dir,
                    seed, sh, write_evidence)

MIRSYM = os.path.join(VERIF, "mirsym")
PY = "python3-vt"
LAYOUT_CRATE = os.path.join(VERIF, "harness", "layout")
LAYOUT_TARGET = os.path.join(BUILD, "layout-native")
SMIR = os.path.join(BUILD, "mir", "truc.smir")

PREFIX = {"C01": ("C01:",), "C02": ("C02:",), "C03": ("C03:",), "C13": ("C13", "PANIC"), "C12": ("C12:",), "C18": ("C18:",),
          "C19": ("C19:",), "C20": ("C20",)}


def dump_mir():
    """stable-MIR of the current /repo/truc (regenerated on every run)."""
    os.makedirs(os.path.dirname(SMIR), exist_ok=True)
    os.utime(os.path.join(REPO, "truc/src/lib.rs"))
    cmd = ["cargo", "+nightly", "rustc", "--offline", "-p", "truc", "--lib", "--target-dir", os.path.join(BUILD, "mir-truc"),
           "--", "-Zunpretty=stable-mir", "-C", "overflow-checks=on", "-C", "debug-assertions=off"]
    import subprocess
    t0 = time.time()
    with open(SMIR, "w") as f:
        p = subprocess.run(cmd, cwd=REPO, env=env_offline(), stdout=f, stderr=subprocess.PIPE, text=True)
    if p.returncode != 0 or os.path.getsize(SMIR) < 10000:
        return None, p.stderr[-2000:]
    return SMIR, "%d bytes in %.1fs" % (os.path.getsize(SMIR), time.time() - t0)


def build_replay():
    lock = os.path.join(LAYOUT_CRATE, "Cargo.lock")
    if not os.path.exists(lock):
        sh(["cp", os.path.join(REPO, "Cargo.lock"), lock])
    outs = []
    for prof in ("dev", "release"):
        cmd = ["cargo", "build", "--offline", "--target-dir", LAYOUT_TARGET] + (["--release"] if prof == "release" else [])
        rc, out, dt = sh(cmd, cwd=LAYOUT_CRATE, env=env_offline())
        if rc != 0:
            return False, out[-1500:]
    return True, ""


def native_differential(scenario_path, runs=24):
    """C19: the same scenario in separately started processes; any difference in what they print is
    a reproduced violation."""
    exe = os.path.join(LAYOUT_TARGET, "debug", "layout_replay")
    outs = set()
    first = None
    for i in range(runs):
        rc, out, dt = sh([exe, scenario_path], timeout=60)
        if first is None:
            first = out
            if "C19-SECOND-GENERATION-DIFFERS" in out:
                return ["C19: generating the same definition twice in one process gives different code (process-global state)"], out
        outs.add(out)
        if len(outs) > 1:
            return ["C19: separately started processes replaying the same history print different layouts or generated code (run 1 vs run %d)" % (i + 1)], \
                   "--- run 1\n%s--- run %d\n%s" % (first, i + 1, out)
    return [], "identical output in %d separately started processes\n%s" % (runs, first or "")


def native_replay(scenario_path):
    """Runs the scenario against the real builder in dev and release; returns (fail lines, raw)."""
    fails, raw = [], ""
    for prof in ("debug", "release"):
        exe = os.path.join(LAYOUT_TARGET, prof, "layout_replay")
        rc, out, dt = sh([exe, scenario_path], timeout=60)
        raw += "--- %s\n%s" % (prof, out)
        for f in re.findall(r"^FAIL: (.*)$", out, re.M):
            if f not in fails:
                fails.append(f)
        if "REPLAY-DONE" not in out:
            fails.append("C13: native replay crashed: " + out[-200:].replace("\n", " | "))
    return fails, raw


def _import_mirsym():
    if MIRSYM not in sys.path:
        sys.path.insert(0, MIRSYM)
    import layout
    import runner
    return layout, runner


def plan_other(pid, tier):
    """Plans of the non-layout mirsym properties."""
    layout, runner = _import_mirsym()
    import requests as rq
    import replaydef as rd
    base = dict(merge=["select_best"], final=False)
    P = []
    native4 = ["simple", "basic", "append_data", "append_data_reverse"]
    if pid == "C12":
        P.append(("REQ generic builder: canonical states x 1 symbolic request", rq.req_state_tasks("generic", ["append_data", "append_data_reverse"], 1), base))
        P.append(("REQ native builder: canonical states x 1 symbolic request", rq.req_state_tasks("native", native4, 1), base))
        P.append(("REQ generic builder: canonical states x 2 symbolic requests", rq.req_state_tasks("generic", ["append_data"], 2), base))
        if tier == "quick":
            P.append(("HISTREQ generic builder: 4 symbolic requests from the empty builder", rq.req_tasks("generic", 4, ["append_data"]), base))
        else:
            P.append(("REQ native builder: canonical states x 2 symbolic requests", rq.req_state_tasks("native", ["simple", "basic"], 2), base))
            P.append(("HISTREQ generic builder: 6 symbolic requests from the empty builder", rq.req_tasks("generic", 6, ["append_data"]), base))
            P.append(("HISTREQ native builder: 5 symbolic requests from the empty builder", rq.req_tasks("native", 5, ["simple", "basic"]), base))
    elif pid == "C18":
        P.append(("RESOLVER: every entry point x every strategy, symbolic resolver answers and overrides", rd.resolver_tasks(native4), base))
        P.append(("TABLE: registrations (typed / may-be-uninit, 1..3 types, repeated) then typed, dynamic, host and unregistered lookups; host size/alignment symbolic",
                  rd.table_tasks(), base))
    elif pid == "C20":
        targets = ["generic"] + native4
        if tier == "quick":
            P.append(("CONV V=2 adds (2,1),(1,2),(0,2),(2,0)", rd.conv_tasks(2, [(2, 1), (1, 2), (0, 2), (2, 0)], native4, targets), base))
            P.append(("CONV V=3 adds (1,1,1),(0,1,1),(1,0,1)", rd.conv_tasks(3, [(1, 1, 1), (0, 1, 1), (1, 0, 1)], ["simple", "append_data"], ["generic", "simple", "basic"]), base))
        else:
            P.append(("CONV V=2 adds (2,2),(3,1),(1,3)", rd.conv_tasks(2, [(2, 2), (3, 1), (1, 3)], native4, targets), base))
            P.append(("CONV V=3 adds (2,1,1),(1,2,1),(1,1,2),(0,2,1),(2,0,1),(0,0,2)", rd.conv_tasks(3, [(2, 1, 1), (1, 2, 1), (1, 1, 2), (0, 2, 1), (2, 0, 1), (0, 0, 2)], native4, targets), base))
            P.append(("CONV V=4 adds (1,1,1,1)", rd.conv_tasks(4, [(1, 1, 1, 1)], ["simple", "basic"], ["generic", "simple", "append_data"]), base))
    elif pid == "C19":
        strategies = native4
        P.append(("HIST V=2 adds (1,1) all strategy pairs (environment reads counted)", layout.hist_tasks(strategies, 2, [(1, 1)]), dict(base, pending=True, final=True)))
        P.append(("STEP simple K=1 M=2", layout.step_tasks("simple", 1, 2, 0, 0), dict(base)))
        P.append(("STEP basic K=2 M=2", layout.step_tasks("basic", 2, 2, 0, 0), dict(base)))
        # two-environment query: paths of one task that consulted the environment are compared pairwise
        # (same inputs, other environment choice); needs the whole task in one job
        P.append(("ENVPAIRS simple K=0 M=2 / K=1 M=2 / K=2 M=1, basic, append (pairwise query over environment-reading paths)",
                  layout.step_tasks("simple", 0, 2, 0, 0) + layout.step_tasks("simple", 1, 2, 0, 0) + layout.step_tasks("simple", 2, 1, 0, 0) +
                  layout.step_tasks("basic", 1, 2, 0, 0) +
                  layout.step_tasks("append_data", 1, 2, 0, 0), dict(base, env_pairs=True, time_slice=3600)))
        # generator side: GeneratorConfig::default_with_custom_generators + generate() + generate_variant() on definitions
        # built by symbolic histories; fragment generator invocations (with the data lists handed to them) and
        # codegen calls (with their arguments) are the observed event trace
        import genev
        if tier == "quick":
            gcfg = genev.genev_tasks(["simple", "append_data"], [(2, 1)]) + genev.genev_tasks(["append_data"], [(1, 1, 1), (3,)])
        else:
            gcfg = genev.genev_tasks(["simple", "append_data"], [(2, 1), (1, 2), (2, 2)]) + genev.genev_tasks(["append_data"], [(1, 1, 1), (2, 1, 1), (3, 1), (1, 3)])
        P.append(("GENEV generate() event traces, %d histories shapes (pairwise query over environment-reading paths)" % len(gcfg), gcfg,
                  dict(base, env_pairs=True, time_slice=3600)))
        P.append(("RESOLVER entry points", rd.resolver_tasks(native4), base))
        if tier != "quick":
            P.append(("HIST V=3 adds (1,1,1)", layout.hist_tasks(strategies, 3, [(1, 1, 1)]), dict(base, pending=True, final=True)))
    return P


def scenario_of(task, model):
    layout, runner = _import_mirsym()
    import requests as rq
    import replaydef as rd
    k = task["kind"]
    if k == "step":
        return layout.model_to_scenario(task, model, {})
    if k == "def":
        return layout.def_scenario(task, model)
    if k == "hist":
        return layout.model_to_hist_scenario(task, model)
    if k == "req":
        return rq.req_scenario(task, model)
    if k == "conv":
        return rd.conv_scenario(task, model)
    if k == "resolver":
        return rd.resolver_scenario(task, model)
    if k == "genev":
        import genev
        return genev.genev_scenario(task, model)
    if k == "table":
        return dict(kind="table", regs=[dict(tag=t_, uninit=u_) for t_, u_ in task["regs"]], dup=bool(task.get("dup")))
    raise ValueError(k)


# ------------------------------------------------------------------------------------ plans
def plan(pid, tier):
    """List of (label, tasks, opts). Bounds are those measured to complete within the tier's budget on
    the unchanged tree (DESIGN.md section 3)."""
    layout, runner = _import_mirsym()
    P = []
    merge = ["select_best"]
    base = dict(merge=merge, final=False, display=True)
    if tier == "quick":
        cfg = [("append_data", 4, 3, 0, 1), ("append_data_reverse", 4, 3, 0, 0), ("append_data", 3, 2, 1, 1),
               ("basic", 3, 2, 0, 1), ("basic", 4, 1, 0, 0), ("basic", 2, 2, 1, 0),
               ("simple", 2, 1, 0, 1), ("simple", 1, 2, 0, 0), ("simple", 1, 1, 1, 0)]
    else:
        cfg = [("append_data", 5, 3, 0, 1), ("append_data_reverse", 4, 3, 0, 1), ("append_data", 3, 2, 1, 1),
               ("basic", 3, 3, 0, 0), ("basic", 4, 2, 0, 1), ("basic", 3, 2, 1, 1),
               ("simple", 2, 1, 1, 1), ("simple", 1, 2, 0, 1), ("simple", 2, 1, 0, 1), ("simple", 1, 1, 2, 1)]
    for (s, K, M, S, Pn) in cfg:
        P.append(("STEP %s K=%d M=%d stale=%d pending=%d" % (s, K, M, S, Pn), layout.step_tasks(s, K, M, S, Pn), dict(base)))
    # deeper shapes of `simple` over a narrower value domain (the cost of `simple` is in the values: the bit loop of
    # select_best and the div/mod chains; the gap bookkeeping bugs are in the shapes)
    # (thorough: the two deepest shapes take ~5 and ~11 min on the unchanged tree; C13 keeps the quick ones)
    if tier == "quick" or pid == "C13":
        narrow = [(2, 2, [1, 2], 6, 24), (3, 1, [1, 2], 6, 24)]
    else:
        narrow = [(2, 2, [1, 2, 4], 8, 32), (3, 1, [1, 2, 4], 8, 32), (3, 2, [1, 2], 4, 16), (2, 3, [1, 2], 4, 16)]
    for (K, M, al, smax, omax) in narrow:
        P.append(("STEP simple K=%d M=%d narrow domain (alignments %s, sizes <= %d, offsets <= %d)" % (K, M, al, smax, omax),
                  layout.step_tasks("simple", K, M, 0, 0, aligns=al), dict(base, aligns=al, smax=smax, omax=omax)))
    # arbitrary definition satisfying the invariant: capacity / alignment / Display (C02 capacity clause, C13)
    for (K, Pn) in ([(3, 1), (4, 0)] if tier == "quick" else [(4, 1), (5, 1), (3, 2)]):
        P.append(("DEF K=%d pending=%d" % (K, Pn), layout.def_tasks(K, Pn), dict(base, final=True)))
    if pid == "C13":
        # generate() / generate_variant() / GeneratorConfig executed on definitions from symbolic histories: a panic in
        # them (not inside a fragment generator's body or the codegen crate, which are event sinks) is a C13 candidate
        import genev
        gcfg = genev.genev_tasks(["simple", "append_data"], [(2, 1)] if tier == "quick" else [(2, 1), (1, 2)]) + \
            genev.genev_tasks(["append_data"], [(1, 1, 1), (3,), (0, 2)] + ([] if tier == "quick" else [(2, 2), (2, 1, 1)]))
        P.append(("GENEV generate() on definitions from symbolic histories (%d history shapes)" % len(gcfg), gcfg, dict(base, pending=True)))
    # histories from the empty builder (reachability / vacuity guard, add-then-remove before close, mixtures)
    strategies = ["simple", "basic", "append_data", "append_data_reverse"]
    if tier == "quick":
        P.append(("HIST V=2 adds (1,1) all strategy pairs", layout.hist_tasks(strategies, 2, [(1, 1)]), dict(base, pending=True, final=True)))
    else:
        P.append(("HIST V=2 adds (2,1),(1,2) all strategy pairs", layout.hist_tasks(strategies, 2, [(2, 1), (1, 2)]), dict(base, pending=True, final=True)))
        P.append(("HIST V=3 adds (1,1,1) all strategy triples", layout.hist_tasks(strategies, 3, [(1, 1, 1)]), dict(base, pending=True, final=True)))
    return P


# ------------------------------------------------------------------------------------ encoder validation
def validate_encoder(layout, runner, smir, n_random):
    """Random concrete histories (VERIF_SEED) are run natively and through mirsym (all values concrete:
    one path) and must agree on every offset and list order. Validation of the interpreter and of
    its std model, not part of any verdict."""
    import mirparse as mp
    from engine import Ref, FnVal
    funcs = mp.parse_file(smir)
    e = layout.new_engine(funcs)
    e.prefix, e.trace, e.pending, e.conds = [], [], [], []
    e.solver.push()
    layout.validate_positions(e)
    rng = random.Random(seed() * 7919 + 17)
    agree = 0
    for i in range(n_random):
        steps = []
        nvar = rng.randint(1, 3)
        nid = 0
        live = []
        for v in range(nvar):
            rm = [d for d in live if rng.random() < 0.35]
            adds = []
            for j in range(rng.randint(0, 3)):
                a = rng.choice(layout.ALIGNS)
                s = rng.choice([0, 1, 2, 3, 4, 6, 8, 12, 16, 24])
                adds.append(dict(s=s, a=a, undo=rng.random() < 0.15))
            st = rng.choice(list(layout.STRATS))
            steps.append(dict(strategy=st, rm=rm, add=adds))
            live = [d for d in live if d not in rm]
            for a in adds:
                if not a["undo"]:
                    live.append(nid)
                nid += 1
        sc = dict(kind="hist", steps=steps)
        path = os.path.join(BUILD, "tmp", "validate-%d.json" % i)
        os.makedirs(os.path.dirname(path), exist_ok=True)
        json.dump(sc, open(path, "w"))
        exe = os.path.join(LAYOUT_TARGET, "debug", "layout_replay")
        rc, out, dt = sh([exe, path], timeout=60)
        native = re.findall(r"^  variant (\d+): (.*)$", out, re.M)
        # same history through the interpreter, concretely
        nat = layout.Native(e)
        n = 0
        mine = []
        for st in steps:
            for d in st["rm"]:
                nat.remove(d)
            for a in st["add"]:
                r = nat.add("f%d" % n, a["s"], a["a"])
                if a["undo"]:
                    nat.remove(r.fields[0].fields[0])
                n += 1
            nat.close(st["strategy"])
            var = layout.Layout.variants_of(nat.inner)[-1]
            defs = layout.Layout.defs_of(nat.inner)
            txt = " ".join("#%d@%d+%d/%d" % ((x.fields[0],) + layout.Layout.info(defs[x.fields[0]])) for x in var.fields[1].items)
            mine.append((str(var.fields[0].fields[0]), txt))
        # native prints one line per close (a no-op close repeats the last variant)
        nat = [(a, b_.strip()) for a, b_ in native]
        if nat != mine:
            return False, "interpreter and native run disagree on history %s:\n native %s\n mirsym %s" % (json.dumps(sc), nat, mine), agree
        agree += 1
    return True, "", agree


# ------------------------------------------------------------------------------------ main
def run(pid, tier):
    t0 = time.time()
    v = Verdict(pid)
    known = Known()
    layout, runner = _import_mirsym()
    smir, info = dump_mir()
    if smir is None:
        v.inconc("MIR dump of /repo/truc failed: " + info[-400:].replace("\n", " | "))
        write_evidence(pid, tier, {"states": 1, "transitions": 1, "traces_validated_against_impl": 0, "samples": ["mir dump failed"]},
                       time.time() - t0)
        return v.finish()
    ok, msg = build_replay()
    if not ok:
        v.inconc("native replay tool does not build against this tree: " + msg[-300:].replace("\n", " | "))
    nval = 12 if tier == "quick" else 60
    try:
        vok, vmsg, agreed = validate_encoder(layout, runner, smir, nval) if ok else (True, "", 0)
    except Exception as ex:  # noqa
        vok, vmsg, agreed = False, "encoder validation raised %r" % (ex,), 0
    if not vok:
        v.inconc("encoder validation failed (the interpreter's model of this tree is not trusted): " + vmsg[:600])
    budget = (8 * 60) if tier == "quick" else (100 * 60)
    deadline = time.time() + budget
    tot_all = {}
    plan_rows = []
    cands = {}     # (message) -> (task, model)
    inv_breaks = []
    errors = []
    stopped_early = None
    the_plan = plan(pid, tier) if pid in ("C01", "C02", "C03", "C13") else plan_other(pid, tier)
    for label, tasks, opts in the_plan:
        if time.time() > deadline:
            errors.append("time budget exhausted before '%s'" % label)
            break
        tot, res, errs = runner.run(smir, tasks, opts, deadline=deadline)
        plan_rows.append(dict(query=label, tasks=tot.get("tasks_done", 0), paths=tot.get("paths", 0), solver_queries=tot.get("queries", 0),
                              solver_s=round(tot.get("solver_s", 0.0), 1), wall_s=round(tot.get("wall_total", 0.0), 1),
                              findings=len(res), errors=len(errs)))
        for k, val in tot.items():
            if isinstance(val, (int, float)):
                tot_all[k] = tot_all.get(k, 0) + val
        errors += ["%s: %s" % (label, x) for x in errs[:3]]
        for r in res:
            task, kind, msg, model = r
            for part in msg.split("; "):
                key = re.sub(r"\d+", "N", part)
                if part.startswith("INV:"):
                    inv_breaks.append((label, task, part, model))
                    continue
                cands.setdefault((label, key), (task, part, model))
        # a counterexample candidate for this property is in hand: replay it rather than spend the budget
        # exploring a tree on which every path may now fork further
        # (a path that merely consulted the environment is a weak candidate: its inputs were not chosen so that the
        # environment matters — the pairwise queries later in the plan find such inputs; keep exploring)
        if any(any(part.startswith(p) for p in PREFIX[pid]) and "consulted its environment" not in part for (_, part, _) in cands.values()):
            stopped_early = label
            break
    # ---- the invariant broke on some path: the induction no longer covers what follows such a state.
    # Continue from those (concrete, reachable) states with further symbolic closes and look for
    # violations of the properties themselves.
    if inv_breaks and time.time() < deadline and not stopped_early:
        seen_models = []
        cont = []
        for lab, task, part, model in inv_breaks:
            if task.get("kind") != "step":
                continue
            sig = (lab, tuple(sorted(task.get("rm", []))), tuple(task.get("new_aligns") or []))
            if sig in seen_models or len(seen_models) >= 16:
                continue
            seen_models.append(sig)
            for s2 in ["simple", "basic", "append_data", "append_data_reverse"]:
                for m2 in (1, 2):
                    t2 = dict(task)
                    t2["fixed"] = model
                    t2["then"] = [dict(strategy=s2, M=m2)]
                    cont.append(t2)
        if cont:
            tot, res, errs = runner.run(smir, cont, dict(merge=["select_best"], final=False), deadline=deadline)
            plan_rows.append(dict(query="CONT: %d concrete invariant-breaking states, one more symbolic close (4 strategies, M=1,2)" % len(seen_models),
                                  tasks=tot.get("tasks_done", 0), paths=tot.get("paths", 0), solver_queries=tot.get("queries", 0),
                                  solver_s=round(tot.get("solver_s", 0.0), 1), wall_s=round(tot.get("wall_total", 0.0), 1),
                                  findings=len(res), errors=len(errs)))
            for k, val in tot.items():
                if isinstance(val, (int, float)):
                    tot_all[k] = tot_all.get(k, 0) + val
            errors += ["CONT: %s" % x for x in errs[:3]]
            for r in res:
                task, kind, msg, model = r
                for part in msg.split("; "):
                    if part.startswith("INV:"):
                        continue
                    cands.setdefault(("CONT " + task["strategy"] + "->" + task["then"][0]["strategy"], re.sub(r"\d+", "N", part)), (task, part, model))
    for e_ in errors[:6]:
        v.inconc(e_)

    # ---- replay candidates that concern this property
    validated = 0
    rdir = replay_dir(pid)
    reported = set()
    nfile = 0
    for (label, key), (task, part, model) in cands.items():
        if not any(part.startswith(p) for p in PREFIX[pid]):
            continue
        sc = scenario_of(task, model)
        sc["found_by"] = label
        sc["solver_says"] = part
        nfile += 1
        path = os.path.join(rdir, "%s-%d.json" % (re.sub(r"[^A-Za-z0-9]+", "_", key)[:60], nfile))
        json.dump(sc, open(path, "w"), indent=1)
        fails, raw = native_differential(path) if pid == "C19" else native_replay(path)
        validated += 1
        mine = [f for f in fails if any(f.startswith(p) for p in PREFIX[pid])]
        if mine:
            for f in mine[:2]:
                k2 = re.sub(r"\d+", "N", f)
                if k2 in reported:
                    continue
                reported.add(k2)
                role = re.sub(r"[^a-z0-9]+", "-", k2.lower()).strip("-")[:60]
                kf = known.match(pid, role)
                if kf:
                    v.known_finding("%s [%s]" % (kf["text"], label))
                else:
                    v.violation(path, "%s: solver: %s; native replay: %s" % (label, part, f))
        else:
            v.inconc("%s: solver reports '%s' but the scenario does not reproduce natively (%s)" % (label, part, path))
    # ---- C13 by-product (a build fact, not a solver verdict): every module of the kgen definition family,
    # generated by the real generator with four fragment selections, must be accepted by rustc
    build_fact = None
    if pid == "C13":
        try:
            import check_kgen
            check_kgen.configure("C13")
            okb, outb, dtb = check_kgen.build_native(2, resilient=False)
            build_fact = "generated modules of the definition family (default, +clone, +serde, +both) compile: %s (%.0fs)" % ("yes" if okb else "NO", dtb)
            if not okb:
                m = re.search(r"(error(?:\[E\d+\])?: [^\n]*)\n\s*--> ([^\n:]*/out/([A-Za-z0-9_]+)\.rs):(\d+)", outb)
                pan = re.search(r"panicked at ([^\n]*)\n([^\n]*)", outb)
                absurd = re.search(r"KGEN-ABSURD-CAPACITY definition (\w+) max_size (\d+)", outb)
                if absurd:
                    rp = os.path.join(rdir, "absurd-capacity-%s.txt" % absurd.group(1))
                    open(rp, "w").write(outb[-3000:])
                    v.violation(rp, "C13: the capacity computed for definition `%s` of the family (a datum added and removed before its close) is %s: "
                                "no record type of that capacity compiles [build fact]" % (absurd.group(1), absurd.group(2)))
                elif m and m.group(3) != "harnesses":
                    rp = os.path.join(rdir, "generated-%s.rs" % m.group(3))
                    sh(["cp", m.group(2), rp])
                    v.violation(rp, "C13: the module generated for definition `%s` is rejected by rustc: %s (line %s) [build fact]" %
                                (m.group(3).split("__")[0], m.group(1)[:160], m.group(4)))
                elif re.search(r"too big for the target architecture|evaluation of constant value failed", outb):
                    mm = re.search(r"(error[^\n]*(?:too big for the target architecture|evaluation of constant value failed)[^\n]*)", outb)
                    rp = os.path.join(rdir, "generated-too-big.txt")
                    open(rp, "w").write(outb[-4000:])
                    v.violation(rp, "C13: a generated module of the definition family is rejected by rustc when its record types are used: %s [build fact]" % (mm.group(1)[:200] if mm else ""))
                elif pan and "build.rs" not in pan.group(1):
                    rp = os.path.join(rdir, "generator-panic.txt")
                    open(rp, "w").write(outb[-4000:])
                    v.violation(rp, "C13: generating code for the definition family panics: %s %s [build fact]" % (pan.group(1)[:120], pan.group(2)[:120]))
                else:
                    v.inconc("the harness crate over the generated modules does not build: " + outb[-300:].replace("\n", " | "))
            # a datum added and removed before its close is not a field: a module generated from a history in
            # which such a datum carries wrong type information must still compile
            if okb:
                import check_genobl
                okt, msgt = check_genobl.build_tools()
                okg, msgg = check_genobl.generate("quick") if okt else (False, msgt)
                if okg:
                    pend = sorted(f[:-5] for f in os.listdir(check_genobl.OUT) if f.endswith(".json") and "_pending" in f)
                    rejected = None
                    for n in pend[:8]:
                        acc, diag = check_genobl.compile_module(n, os.path.join(check_genobl.OUT, n + ".rs"))
                        if not acc:
                            rejected = (n, diag)
                            break
                    build_fact += "; %d modules whose never-placed datum carries wrong type information compile: %s" % (len(pend[:8]), "yes" if not rejected else "NO")
                    if rejected:
                        rp = os.path.join(rdir, rejected[0] + ".rs")
                        sh(["cp", os.path.join(check_genobl.OUT, rejected[0] + ".rs"), rp])
                        v.violation(rp, "C13: the module generated for a history whose never-placed datum (added and removed before its close) carries wrong "
                                    "type information is rejected by rustc although every field is fine: %s [build fact]" % rejected[1][:200])
        except Exception as ex:  # noqa
            v.inconc("C13 build by-product failed to run: %r" % (ex,))
    kgen_layout = None
    if pid in ("C02", "C03"):
        try:
            import check_kgen
            kgen_layout = check_kgen.layout_subcheck(pid, tier, v)
        except Exception as ex:  # noqa
            v.inconc("kgen layout harnesses failed to run: %r" % (ex,))
    if inv_breaks and not v.violations:
        lab, task, part, model = inv_breaks[0]
        v.inconc("the representation invariant (list address-sorted including zero-size data) is not preserved by one close on this tree "
                 "(%s: %s, %d paths): the one-step induction does not cover histories through such states" % (lab, part, len(inv_breaks)))

    samples = plan_rows[:]
    coverage = {
        "states": int(max(tot_all.get("paths", 0), 1)),
        "transitions": int(max(tot_all.get("queries", 0), 1)),
        "traces_validated_against_impl": validated + agreed,
        "samples": samples,
        "engine": "mirsym (own symbolic interpreter of rustc stable-MIR, z3 %s) over /repo/truc" % _z3v(),
        "functions_encoded": FUNCS.get(pid, FUNCS["layout"]),
        "bounds": BOUNDS.get(pid, "sizes 0..%d, alignments %s, pre-state offsets 0..%d; shapes listed in samples (K live data, M added, stale = removed in an earlier variant, "
                  "pending = added and removed before a close); all removal subsets; strategy per close as listed" % (layout.SMAX, layout.ALIGNS, layout.OMAX)),
        "environment_reads": int(tot_all.get("env_reads_total", 0)),
        "host_reads": int(tot_all.get("host_reads_total", 0)),
        "invariant": "every listed datum aligned; each datum of a variant's list starts at or after the end of the previous one (zero-size data included)",
        "unit_meaning": "states = symbolic paths explored to the end; transitions = z3 queries",
        "solver_s": round(tot_all.get("solver_s", 0.0), 1),
        "encoder_validation": "%d random concrete histories agree between native run and interpreter" % agreed,
        "mir_dump": info,
        "inv_breaks": len(inv_breaks),
        "stopped_at_first_candidate": stopped_early,
        "build_fact": build_fact,
        "kgen_layout_harnesses": kgen_layout,
        "repo_head": repo_head(),
        "exhaustive": False,
    }
    assumptions = [
        "rustc's stable-MIR dump (nightly) represents the program; overflow checks on, debug assertions off",
        "std model of the interpreter (Vec, slices, iterators, Option/Result, BTreeMap as sorted association list, fmt as no-ops) — validated each run against native runs",
        "pre-states of STEP are built through the public builder API with an identity strategy; every pre-state satisfying the invariant is reachable with append_data and filler data (native replays do exactly that)",
        "function-level path merging for select_best (its MIR is still what is executed)",
        "z3 Int encoding with explicit range constraints; overflow checks are explicit MIR asserts",
    ]
    write_evidence(pid, tier, coverage, time.time() - t0, violations=len(v.violations), assumptions=assumptions)
    return v.finish()


FUNCS = {
    "layout": ["NativeRecordDefinitionBuilder::{new,add_datum_override,remove_datum,close_record_variant_with}",
               "GenericRecordDefinitionBuilder::{new,add_datum,remove_datum,close_record_variant_with,get_current_*,build}",
               "native::variant::{simple,basic,append_data,append_data_reverse} and helpers (compute_initial_gaps, fit_datum_to_gap, select_best, "
               "select_start_or_end_of_gap, align_bytes, NativeDataUpdater::{end,remove_data,push_datum})",
               "RecordDefinition::{max_size,max_type_align}, Display for RecordDefinition<NativeDatumDetails>"],
    "C12": ["GenericRecordDefinitionBuilder::{new,add_datum,remove_datum,has_pending_changes,close_record_variant_with,get_current_data,"
            "get_current_datum_definition_by_name,build}", "NativeRecordDefinitionBuilder::{add_datum_override,remove_datum,close_record_variant_with,...}",
            "generic::variant::{append_data,append_data_reverse}, native strategies", "DatumDefinitionCollection::{push,get,get_mut}"],
    "C18": ["StaticTypeResolver::{new,add_type,add_type_allow_uninit}, <StaticTypeResolver as TypeResolver>::{type_info,dynamic_type_info}, <HostTypeResolver as TypeResolver>::type_info",
            "NativeRecordDefinitionBuilder::{add_datum,add_datum_allow_uninit,add_datum_override,add_dynamic_datum,copy_datum,close_record_variant_with}",
            "TypeResolver for &R (forwarding impl); the driver's resolver answers symbolically", "native strategies"],
    "C19": ["everything of the layout family, with hashed containers' iteration order, addresses cast to integers, clocks and the process environment as environment symbols",
            "generator::{generate, generate_variant, safe_record_generic}, GeneratorConfig::{default_with_custom_generators, common_fragment_generators, new} (GENEV; the fragment generators' bodies and the codegen crate are event sinks, not encoded)"],
    "C20": ["record::definition::convert::convert_record_definition", "NativeRecordDefinitionBuilder::{copy_datum,remove_datum,close_record_variant_with}",
            "GenericRecordDefinitionBuilder::{add_datum,remove_datum,close_record_variant_with,build}", "RecordDefinition::{variants,Index<DatumId>}, RecordVariant::{data,id}"],
}
BOUNDS = {
    "C12": "canonical builder states (optional stale datum re-using a name, 0..3 live data, ordered pending removals <= 2, pending additions <= 2) followed by 1 or 2 symbolic "
           "requests (kind per task; name index over a 3-letter alphabet and datum id over all ids + 1 unknown symbolic), and request sequences of length L from the empty "
           "builder (L in samples); generic builder with both dummy strategies, native builder with the shipped ones",
    "C18": "each of the five entry points that attach type information, resolver answers (size 0..24, alignment in {1,2,4,8,16}, name, may-be-uninit) symbolic, "
           "override fields symbolically present/absent, each shipped strategy; host size/alignment queries are symbols of their own",
    "C19": "the explorations listed in samples; environment reads are counted per path (and make the path a candidate that is replayed in 24 separately started processes); "
           "GENEV: histories of 1..3 closes with the listed additions per close, every removal subset, sizes 0..2, alignments {1,4}, two type names, two custom fragment "
           "generators; observed: order and arguments of fragment-generator invocations and of codegen calls (the text each fragment emits is outside)",
    "C20": "source definitions from bounded histories (V closes, additions per close as listed, every removal subset, names re-used after removal, zero-size / odd / "
           "over-aligned shapes) through the native builder; targets: generic builder and native builder with each strategy",
}


def _z3v():
    rc, out, dt = sh([PY, "-c", "import z3; print(z3.get_version_string())"])
    return out.strip()


def replay(pid, path):
    ok, msg = build_replay()
    fails, raw = native_replay(path)
    print(raw)
    return 1 if any(f.startswith(p) for f in fails for p in PREFIX.get(pid, ())) else 0
