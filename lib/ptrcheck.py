"""Pointer obligations of the storage primitives (clauses of C04 and C07 that CBMC's memory model cannot see):

 * permission — the pointer a primitive stores through / hands out as `&mut` must be derived from a mutable
   borrow of the buffer (C04: "the pointer used for stores must carry write permission");
 * alignment — an alignment-requiring access (`ptr::read`, `ptr::write`, `&*p`, `&mut *p`) at `base + offset`
   must be aligned for every base address the receiver's *type* allows (C07): a local
   `RecordMaybeUninit<CAP>` only guarantees alignment 1, the `data` field of a `#[repr(align(A))]` record
   guarantees A.  This is a for-all query over the symbolic base address, decided by z3.

The primitives' behaviour is obtained by abstractly executing their MIR (stable-MIR dump of the current
truc_runtime); call sites and receivers come from the generated modules (syn dump); offsets, types and
alignments from the definitions' recorded facts. Replay: Miri (stacked borrows + symbolic alignment check)
on the repository's own fibonacci example."""
import json
import os
import re
import sys
import time

from common import BUILD, REPO, VERIF, env_offline, sh

MIRSYM = os.path.join(VERIF, "mirsym")


def dump_runtime_mir():
    out = os.path.join(BUILD, "mir", "truc_runtime.smir")
    os.makedirs(os.path.dirname(out), exist_ok=True)
    os.utime(os.path.join(REPO, "truc_runtime/src/lib.rs"))
    import subprocess
    cmd = ["cargo", "+nightly", "rustc", "--offline", "-p", "truc_runtime", "--lib", "--target-dir", os.path.join(BUILD, "mir-rt"),
           "--", "-Zunpretty=stable-mir", "-C", "overflow-checks=on", "-C", "debug-assertions=off"]
    with open(out, "w") as f:
        p = subprocess.run(cmd, cwd=REPO, env=env_offline(), stdout=f, stderr=subprocess.PIPE, text=True)
    if p.returncode != 0 or os.path.getsize(out) < 2000:
        return None
    return out


def summarize_primitives(smir):
    """Abstract execution of read / write / get / get_mut (inter-procedural for helpers defined in the same
    crate): where does the accessed pointer come from (shared or mutable borrow of the buffer) and which
    access is performed on it."""
    if MIRSYM not in sys.path:
        sys.path.insert(0, MIRSYM)
    import mirparse as mp
    funcs = mp.parse_file(smir)

    def find(name_re):
        for name, fn in funcs.items():
            if re.search(name_re, name):
                return fn
        return None

    def run(f, argvals, depth, sinks):
        """argvals: dict param-local -> abstract pointer value. Returns abstract value of _0 (or None)."""
        vals = dict(argvals)
        self_mut = f.local_types.get(1, "").startswith("&mut")
        work = [0]
        seen = set()
        while work:
            bb = work.pop(0)
            if bb is None or bb in seen or bb not in f.blocks:
                continue
            seen.add(bb)
            succ = []
            for text in f.blocks[bb]:
                try:
                    st = mp.parse_stmt(text)
                except Exception:
                    if "(*_1)" in text:
                        m_ = re.match(r"\s*_(\d+) = (&mut |&)", text)
                        if m_:
                            vals[int(m_.group(1))] = dict(perm="mut" if (m_.group(2) == "&mut " and self_mut) else "shared",
                                                         via=("&mut " if m_.group(2) == "&mut " else "&") + "self.data[..]")
                        else:
                            sinks.append(dict(op="unparsed: " + text[:60], perm="shared", needs_mut=None, aligned=None, via=None))
                    continue
                if st[0] == "assign":
                    dest, rv = st[1], st[2]
                    if not isinstance(dest, mp.Local):
                        continue
                    if isinstance(rv, mp.RefOf):
                        base = rv.p
                        if isinstance(base, mp.Index):
                            base = base.p
                        if isinstance(base, mp.Field) and isinstance(base.p, mp.Deref) and isinstance(base.p.p, mp.Local) and (base.p.p.n == 1 or base.p.p.n in vals):
                            src_self = vals.get(base.p.p.n)
                            outer_mut = self_mut if src_self is None else (src_self.get("perm") == "mut")
                            vals[dest.n] = dict(perm="mut" if (rv.mut and outer_mut) else "shared", via="&mut self.data" if rv.mut else "&self.data")
                        elif isinstance(base, mp.Deref) and isinstance(base.p, mp.Local) and base.p.n in vals:
                            src = vals[base.p.n]
                            if src.get("kind") == "self":
                                vals[dest.n] = dict(src, perm="mut" if (rv.mut and src["perm"] == "mut") else "shared")
                            else:
                                sinks.append(dict(op="&mut *p" if rv.mut else "&*p", perm=src["perm"], needs_mut=bool(rv.mut), aligned=True, via=src.get("via")))
                                vals[dest.n] = dict(src)
                    elif isinstance(rv, (mp.Move, mp.Copy)) and isinstance(rv.p, mp.Local) and rv.p.n in vals:
                        vals[dest.n] = dict(vals[rv.p.n])
                    elif isinstance(rv, mp.Cast) and isinstance(rv.a, (mp.Move, mp.Copy)) and isinstance(rv.a.p, mp.Local) and rv.a.p.n in vals:
                        vals[dest.n] = dict(vals[rv.a.p.n])   # casts (incl. *const -> *mut) never add permission
                elif st[0] == "call":
                    cl = st[1]
                    callee = mp.strip_generics(cl.callee)
                    args = [a.p.n if isinstance(a, (mp.Move, mp.Copy)) and isinstance(a.p, mp.Local) else None for a in cl.args]
                    tracked = [i for i, a in enumerate(args) if a in vals]
                    src = vals.get(args[0]) if args and args[0] in vals else None
                    dn = cl.dest.n if isinstance(cl.dest, mp.Local) else None
                    helper = None
                    if tracked and depth < 4:
                        last = callee.split("::")[-1]
                        helper = find(r"(^|::)%s$" % re.escape(last)) if ("RecordMaybeUninit" in callee or callee.count("::") <= 1) else None
                        if helper is not None and helper is f:
                            helper = None
                    if helper is not None and src is not None:
                        sub = {}
                        for i, a in enumerate(args):
                            if a in vals:
                                sub[i + 1] = dict(vals[a])
                        rv_ = run(helper, sub, depth + 1, sinks)
                        if rv_ is not None and dn is not None:
                            vals[dn] = rv_
                    elif src is not None:
                        if callee.endswith("::as_mut_ptr"):
                            vals[dn] = dict(src, kind="ptr", via=src.get("via", "") + ".as_mut_ptr()")
                        elif callee.endswith("::as_ptr"):
                            vals[dn] = dict(src, kind="ptr", perm="shared", via=src.get("via", "") + ".as_ptr()")
                        elif re.search(r"::(add|offset|byte_add|wrapping_add|cast|cast_mut|cast_const)$", callee):
                            vals[dn] = dict(src)
                        elif re.search(r"(^|::)(write|write_unaligned|write_volatile)$", callee):
                            sinks.append(dict(op=callee.split("::")[-1], perm=src["perm"], needs_mut=True, aligned="unaligned" not in callee, via=src.get("via")))
                        elif re.search(r"(^|::)(read|read_unaligned|read_volatile)$", callee):
                            sinks.append(dict(op=callee.split("::")[-1], perm=src["perm"], needs_mut=False, aligned="unaligned" not in callee, via=src.get("via")))
                        elif re.search(r"::(as_ref|as_mut|get|get_mut)$", callee) and "UnsafeCell" in callee:
                            vals[dn] = dict(src, perm="mut" if ("get_mut" in callee and src["perm"] == "mut") or callee.endswith("::get") else src["perm"], via=src.get("via", "") + ".UnsafeCell")
                        elif re.search(r"::(as_ref|as_mut)$", callee) or "Deref" in callee:
                            vals[dn] = dict(src)
                        elif re.search(r"copy_nonoverlapping|copy$", callee):
                            sinks.append(dict(op=callee.split("::")[-1], perm=src["perm"], needs_mut=False, aligned=True, via=src.get("via")))
                        else:
                            sinks.append(dict(op="unknown call " + callee, perm=src["perm"], needs_mut=None, aligned=None, via=src.get("via")))
                    succ.append(cl.ret)
                elif st[0] == "goto":
                    succ.append(st[1])
                elif st[0] == "switch":
                    succ += list(st[2].values()) + [st[3]]
                elif st[0] in ("assert", "drop"):
                    succ.append(st[-1])
            work += [x for x in succ if x is not None]
        return vals.get(0)

    out = {}
    for prim in ("read", "write", "get", "get_mut"):
        f = find(r"^RecordMaybeUninit::<CAP>::%s$" % prim)
        if f is None:
            out[prim] = dict(error="MIR of the primitive not found")
            continue
        sinks = []
        self_mut = f.local_types.get(1, "").startswith("&mut")
        run(f, {1: dict(kind="self", perm="mut" if self_mut else "shared", via="&mut self" if self_mut else "&self")}, 0, sinks)
        if not sinks:
            sinks.append(dict(op="no access found", perm="shared", needs_mut=None, aligned=None, via=None))
        out[prim] = dict(sinks=sinks)
    return out


def classify_receiver(recv):
    r = recv.replace(" ", "")
    if r in ("data",):
        return "local"
    if r.endswith(".data"):
        return "field"
    return "unknown"


def check_module(z3, name, facts, ast, prims):
    """Returns (n_queries, violations) for one generated module."""
    viol = []
    nq = 0
    aligns = {}
    for s in ast.get("structs", []):
        m = [re.search(r"align\((\d+)\)", r.replace(" ", "")) for r in s.get("repr", [])]
        m = [x for x in m if x]
        if s["name"].startswith("CappedRecord") and m:
            aligns[s["name"]] = int(m[0].group(1))
    rec_align = min(aligns.values()) if aligns else 1
    by_off = {}
    for d in facts["data"]:
        by_off.setdefault(d["offset"], []).append(d)
    for c in ast.get("calls", []):
        prim = c["method"]
        summ = prims.get(prim, {})
        kind = classify_receiver(c["receiver"])
        try:
            off = int(c["args"][0].replace(" ", "").rstrip("usize").rstrip("_"))
        except Exception:
            continue
        guaranteed = 1 if kind == "local" else (aligns.get(c["impl"].split(" for ")[-1].split("<")[0], rec_align) if kind == "field" else 1)
        for d in by_off.get(off, [dict(align=1, type="?", name="?")]):
            for sink in summ.get("sinks", []):
                if sink.get("aligned") is None:
                    continue
                a_req = d["align"] if sink["aligned"] else 1
                nq += 1
                base = z3.Int("base")
                s = z3.Solver()
                s.add(base >= 0, base % guaranteed == 0, (base + off) % a_req != 0)
                if s.check() == z3.sat:
                    viol.append(dict(kind="align", module=name, fn=c["fn"], impl=c["impl"], primitive=prim, op=sink["op"], receiver=c["receiver"],
                                     offset=off, field=d["name"], type=d["type"], required=a_req, guaranteed=guaranteed,
                                     base=s.model()[base].as_long()))
    return nq, viol


def permission_violations(prims):
    out = []
    for prim, summ in prims.items():
        if "error" in summ:
            out.append(dict(kind="unknown", primitive=prim, text=summ["error"]))
            continue
        for sink in summ.get("sinks", []):
            if sink.get("needs_mut") and sink.get("perm") != "mut":
                out.append(dict(kind="perm", primitive=prim, op=sink["op"], via=sink.get("via")))
            if sink.get("needs_mut") is None:
                out.append(dict(kind="unknown", primitive=prim, text=sink["op"]))
    return out


def miri_replay(timeout=1500):
    """The repository's own fibonacci example under Miri with the symbolic alignment check and
    stacked borrows: returns the first UB message or None."""
    rc, out, dt = sh(["cargo", "+nightly", "miri", "run", "--offline", "--target-dir", os.path.join(BUILD, "miri-fib")],
                     cwd=os.path.join(REPO, "examples", "fibonacci"),
                     env=env_offline({"MIRIFLAGS": "-Zmiri-symbolic-alignment-check -Zmiri-disable-isolation"}), timeout=timeout)
    m = re.search(r"error: Undefined Behavior: (.*)", out)
    if m:
        loc = re.search(r"--> (\S+)", out)
        return m.group(1) + (" at " + loc.group(1) if loc else ""), out
    if rc != 0 and "All good" not in out:
        return None, out
    return None, out


def run(which, outdir_modules, names):
    """which: 'perm' (C04) or 'align' (C07). Returns dict(queries, violations(list of text), replay, notes)."""
    import z3
    res = dict(queries=0, violations=[], notes=[], miri=None, prims=None)
    smir = dump_runtime_mir()
    if smir is None:
        res["notes"].append("MIR dump of truc_runtime failed")
        res["inconclusive"] = True
        return res
    prims = summarize_primitives(smir)
    res["prims"] = {k: [dict(op=s["op"], perm=s["perm"], aligned=s["aligned"]) for s in v.get("sinks", [])] for k, v in prims.items()}
    cands = []
    if which == "perm":
        for pv in permission_violations(prims):
            res["queries"] += 1
            if pv["kind"] == "perm":
                cands.append("C04: RecordMaybeUninit::%s performs `%s` through a pointer derived from a shared borrow (%s): it carries no write permission" %
                             (pv["primitive"], pv["op"], pv["via"]))
            else:
                res["notes"].append("primitive %s: %s (not understood by the pointer analysis)" % (pv["primitive"], pv.get("text")))
                res["inconclusive"] = True
        res["queries"] += sum(len(v.get("sinks", [])) for v in prims.values())
    else:
        dumper = os.path.join(BUILD, "astdump", "release", "astdump")
        seen = set()
        for n in names:
            fj = os.path.join(outdir_modules, n + ".json")
            fr = os.path.join(outdir_modules, n + ".rs")
            if not os.path.exists(fj):
                continue
            facts = json.load(open(fj))
            if facts.get("extra", {}).get("twin"):
                continue
            rc, out, dt = sh([dumper, fr], timeout=60)
            try:
                ast = json.loads(out)
            except Exception:
                continue
            nq, viol = check_module(z3, n, facts, ast, prims)
            res["queries"] += nq
            for v_ in viol:
                key = (v_["primitive"], v_["op"], v_["receiver"].replace(" ", ""))
                if key in seen:
                    continue
                seen.add(key)
                cands.append("C07: %s::%s calls %s on `%s` (guaranteed alignment %d) and the primitive performs the alignment-requiring `%s` for field `%s` "
                             "(%s, alignment %d) at offset %d: misaligned e.g. for base address %d" %
                             (v_["impl"], v_["fn"], v_["primitive"], v_["receiver"].replace(" ", ""), v_["guaranteed"], v_["op"], v_["field"], v_["type"],
                              v_["required"], v_["offset"], v_["base"]))
    if cands:
        ub, raw = miri_replay()
        res["miri"] = ub or "no undefined behaviour reported by Miri on examples/fibonacci"
        if ub:
            res["violations"] = cands
            res["replay_text"] = raw[-3000:]
        else:
            res["notes"] += ["solver: " + c + " — not confirmed by Miri on examples/fibonacci" for c in cands]
            res["inconclusive"] = True
    return res
