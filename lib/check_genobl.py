"""C11 / C14 — compile-time obligations of generated code as SMT (z3).

The real generator of /repo is run (natively, tool genobl/gen) on the definition family and on twins
with one deliberately wrong piece of recorded type information; a syn-based dumper (genobl/astdump)
extracts what the generated module makes the compiler check; the compiler's acceptance rules are
three axioms; the real size / alignment / Copy / Send / Sync of every field type are symbolic.
SAT answers are replayed with rustc itself (cargo check of the module + a probe)."""
import json
import os
import re
import sys
import time

from common import (BUILD, Known, REPO, VERIF, Verdict, env_offline, repo_head, replay_dir, seed, sh, write_evidence)

GEN_CRATE = os.path.join(VERIF, "genobl", "gen")
DUMP_CRATE = os.path.join(VERIF, "genobl", "astdump")
GEN_TARGET = os.path.join(BUILD, "genobl-gen")
DUMP_TARGET = os.path.join(BUILD, "astdump")
OUT = os.path.join(BUILD, "genobl-out")
COMPILE_DIR = os.path.join(BUILD, "genobl-compile")


def norm(t):
    return re.sub(r"\s+", "", t)


def build_tools():
    for crate, target in ((GEN_CRATE, GEN_TARGET), (DUMP_CRATE, DUMP_TARGET)):
        lock = os.path.join(crate, "Cargo.lock")
        if not os.path.exists(lock):
            sh(["cp", os.path.join(REPO, "Cargo.lock"), lock])
        rc, out, dt = sh(["cargo", "build", "--offline", "--release", "--target-dir", target], cwd=crate, env=env_offline())
        if rc != 0:
            return False, out[-1500:]
    return True, ""


def generate(tier):
    sh(["rm", "-rf", OUT])
    rc, out, dt = sh([os.path.join(GEN_TARGET, "release", "genobl_gen"), OUT, tier], timeout=600)
    return rc == 0, out[-1500:]


def dump(path):
    rc, out, dt = sh([os.path.join(DUMP_TARGET, "release", "astdump"), path], timeout=60)
    try:
        return json.loads(out)
    except Exception:
        return {"parse_error": out[-300:]}


# ---------------------------------------------------------------------------------- rustc as the replay oracle
def compile_module(name, module_path, probe=""):
    """cargo check of the generated module (+ optional probe code) against the real runtime.
    Returns (accepted, diagnostics tail)."""
    d = os.path.join(COMPILE_DIR, "crate")
    os.makedirs(os.path.join(d, "src"), exist_ok=True)
    with open(os.path.join(d, "Cargo.toml"), "w") as f:
        f.write('[package]\nname = "genobl_probe"\nversion = "0.0.0"\nedition = "2021"\n\n[workspace]\n\n[dependencies]\n'
                'truc_runtime = { path = "%s/truc_runtime" }\nkgen_types = { path = "%s/kgen/types" }\nstatic_assertions = "1"\n'
                'serde = { version = "1", features = ["derive"] }\n' % (REPO, VERIF))
    lock = os.path.join(d, "Cargo.lock")
    if not os.path.exists(lock):
        sh(["cp", os.path.join(REPO, "Cargo.lock"), lock])
    with open(os.path.join(d, "src", "lib.rs"), "w") as f:
        f.write('#![allow(dead_code, unused, clippy::all)]\n#[macro_use]\nextern crate static_assertions;\n'
                'pub mod m { include!("%s"); }\n%s\n' % (module_path, probe))
    rc, out, dt = sh(["cargo", "check", "--offline", "--target-dir", os.path.join(COMPILE_DIR, "target")], cwd=d, env=env_offline(), timeout=600)
    errs = re.findall(r"^error(?:\[E\d+\])?: .*$", out, re.M)
    return rc == 0, "; ".join(errs[:3])[:400]


# ---------------------------------------------------------------------------------- C11
def c11_queries(z3, name, facts, ast):
    """Returns list of (query label, datum id, kind, sat?, model summary)."""
    types = sorted({norm(d["type"]) for d in facts["data"]})
    rs = {t: z3.Int("real_size[%s]" % t) for t in types}
    ra = {t: z3.Int("real_align[%s]" % t) for t in types}
    cp = {t: z3.Bool("is_copy[%s]" % t) for t in types}

    def sym(table, t, mk):
        t = norm(t)
        if t not in table:
            table[t] = mk(t)
        return table[t]
    accepted = []
    obligations = []
    for m in ast.get("macros", []):
        if not m["path"].endswith("const_assert_eq"):
            continue
        tok = norm(m["tokens"])
        mm = re.match(r"^std::mem::(size_of|align_of)::<(.*)>\(\),(\d+)$", tok)
        if not mm:
            mm2 = re.match(r"^(\d+),std::mem::(size_of|align_of)::<(.*)>\(\)$", tok)
            if mm2:
                mm = type("M", (), {"group": lambda self, i, g=(mm2.group(2), mm2.group(3), mm2.group(1)): g[i - 1]})()
        if not mm:
            obligations.append("unrecognised const assertion: " + m["tokens"][:80])
            continue
        kind, ty, n = mm.group(1), mm.group(2), int(mm.group(3))
        table = rs if kind == "size_of" else ra
        v = sym(table, ty, lambda t: z3.Int("real_%s[%s]" % (kind, t)))
        accepted.append(v == n)
        obligations.append("%s::<%s>() == %d" % (kind, ty, n))
    bounded = {}
    for s in ast.get("structs", []):
        pos = [i for i, g in enumerate([g for g in s["generics"] if g["kind"] == "type"]) if any(norm(b) in ("Copy", "std::marker::Copy", "core::marker::Copy") for b in g.get("bounds", []))]
        if pos:
            bounded[s["name"]] = pos
    for t in ast.get("turbofish", []):
        if t["name"] in bounded:
            for i in bounded[t["name"]]:
                if i < len(t["args"]):
                    ty = norm(t["args"][i])
                    accepted.append(sym(cp, ty, lambda x: z3.Bool("is_copy[%s]" % x)))
                    obligations.append("%s: Copy (via %s)" % (ty, t["name"]))
    in_variant = {i for v in facts["variants"] for i in v}
    out = []
    s = z3.Solver()
    s.add(*accepted)
    for t in rs.values():
        s.add(t >= 0)
    for t in ra.values():
        s.add(t >= 1)
    base_sat = s.check() == z3.sat
    for d in facts["data"]:
        if d["id"] not in in_variant:
            continue
        ty = norm(d["type"])
        for kind, cond in (("size", rs[ty] != d["size"]), ("align", ra[ty] != d["align"])) + ((("copy", z3.Not(cp[ty])),) if d["allow_uninit"] else ()):
            s.push()
            s.add(cond)
            r = s.check()
            sat = r == z3.sat
            summ = ""
            if sat:
                mdl = s.model()
                summ = "real_size=%s real_align=%s is_copy=%s" % (mdl.eval(rs[ty], model_completion=True), mdl.eval(ra[ty], model_completion=True), mdl.eval(cp[ty], model_completion=True))
            s.pop()
            out.append(dict(module=name, datum=d["id"], field=d["name"], type=ty, kind=kind, recorded=d["size"] if kind == "size" else d["align"] if kind == "align" else True,
                            sat=sat, model=summ))
    return out, base_sat, obligations


def c11_twin_query(z3, facts, ast_queries_accept):
    pass


# ---------------------------------------------------------------------------------- C14
AUTO = {"u8", "u16", "u32", "u64", "u128", "usize", "i8", "i16", "i32", "i64", "i128", "isize", "bool", "char", "f32", "f64", "()", "String", "str"}


class Traits:
    """Auto-trait derivation (Send / Sync) over type expressions with symbolic leaves."""

    def __init__(self, z3, structs, impls):
        self.z3 = z3
        self.structs = {s["name"]: s for s in structs}
        self.impls = impls
        self.leaf = {}
        self.unknown = set()

    def sym(self, trait, ty):
        k = (trait, ty)
        if k not in self.leaf:
            self.leaf[k] = self.z3.Bool("is_%s[%s]" % (trait.lower(), ty))
        return self.leaf[k]

    def explicit(self, trait, head):
        for i in self.impls:
            tr = i.get("trait")
            if tr and norm(tr["path"]).split("::")[-1] == trait and norm(i["self_ty"]).split("<")[0] == head:
                return not tr.get("negative", False)
        return None

    def holds(self, trait, ty, depth=0):
        z3 = self.z3
        ty = norm(ty)
        if depth > 12:
            return self.sym(trait, ty)
        if ty in AUTO or re.match(r"^\d+$", ty):
            return z3.BoolVal(True)
        m = re.match(r"^\[(.*);([^;\]]*)\]$", ty)
        if m:
            return self.holds(trait, m.group(1), depth + 1)
        if ty.startswith("(") and ty.endswith(")"):
            parts = split_top(ty[1:-1])
            return z3.And(*[self.holds(trait, p, depth + 1) for p in parts]) if parts else z3.BoolVal(True)
        if ty.startswith("*const") or ty.startswith("*mut"):
            return z3.BoolVal(False)
        if ty.startswith("&mut"):
            return self.holds(trait, ty[4:], depth + 1) if trait == "Send" else self.holds("Sync", ty[4:], depth + 1)
        if ty.startswith("&"):
            return self.holds("Sync", ty[1:].lstrip("'a").lstrip("'static"), depth + 1)
        if ty.startswith("dyn"):
            return z3.BoolVal(("+" + trait) in ty.replace(" ", ""))
        head, args = split_generic(ty)
        h = head.split("::")[-1]
        if h in ("MaybeUninit", "ManuallyDrop", "PhantomData", "Box", "Vec", "Option", "Wrapping"):
            return z3.And(*[self.holds(trait, a, depth + 1) for a in args]) if args else z3.BoolVal(True)
        if h in ("UnsafeCell", "Cell", "RefCell"):
            return z3.BoolVal(False) if trait == "Sync" else z3.And(*[self.holds("Send", a, depth + 1) for a in args])
        if h in ("Rc",):
            return z3.BoolVal(False)
        if h in ("Arc",):
            return z3.And(*[z3.And(self.holds("Send", a, depth + 1), self.holds("Sync", a, depth + 1)) for a in args])
        if h in ("Mutex",):
            return z3.And(*[self.holds("Send", a, depth + 1) for a in args])
        ex = self.explicit(trait, h)
        if ex is not None:
            return z3.BoolVal(ex)
        if h in self.structs:
            s = self.structs[h]
            # substitute generic type parameters
            tparams = [g["name"] for g in s["generics"] if g["kind"] == "type"]
            targs = [a for a in args if not re.match(r"^\{?[A-Z_0-9a-z: +]*\}?$", a) or a in tparams]
            sub = dict(zip(tparams, [a for a in args][:len(tparams)]))
            conj = []
            for f in s["fields"]:
                if f.get("cfg_off"):
                    continue
                fty = norm(f["ty"])
                for k, v_ in sub.items():
                    fty = re.sub(r"\b%s\b" % re.escape(k), v_, fty)
                conj.append(self.holds(trait, fty, depth + 1))
            return z3.And(*conj) if conj else z3.BoolVal(True)
        return self.sym(trait, ty)


def split_top(s):
    parts, depth, cur = [], 0, ""
    for ch in s:
        if ch in "<([{":
            depth += 1
        elif ch in ">)]}":
            depth -= 1
        if ch == "," and depth == 0:
            parts.append(cur)
            cur = ""
        else:
            cur += ch
    if cur.strip():
        parts.append(cur)
    return [p.strip() for p in parts]


def split_generic(ty):
    i = ty.find("<")
    if i < 0 or not ty.endswith(">"):
        return ty, []
    return ty[:i], split_top(ty[i + 1:-1])


def runtime_structs():
    """Struct declarations of truc_runtime::data (cfg(truc_verif) fields are not part of normal builds)."""
    return dump(os.path.join(REPO, "truc_runtime/src/data.rs"))


def c14_queries(z3, name, facts, ast, rt):
    tr = Traits(z3, ast.get("structs", []) + rt.get("structs", []), ast.get("impls", []) + rt.get("impls", []))
    out = []
    by_id = {d["id"]: d for d in facts["data"]}
    for vi, ids in enumerate(facts["variants"]):
        rec = "CappedRecord%d<CAP>" % vi
        for trait in ("Send", "Sync"):
            rec_holds = tr.holds(trait, rec)
            fields = z3.And(*[tr.sym(trait, norm(by_id[i]["type"])) if norm(by_id[i]["type"]) not in AUTO else z3.BoolVal(True) for i in ids]) if ids else z3.BoolVal(True)
            for direction, cond in (("only-if", z3.And(rec_holds, z3.Not(fields))), ("if", z3.And(fields, z3.Not(rec_holds)))):
                s = z3.Solver()
                s.add(cond)
                sat = s.check() == z3.sat
                out.append(dict(module=name, variant=vi, trait=trait, direction=direction, sat=sat,
                                fields=[norm(by_id[i]["type"]) for i in ids]))
    return out


# ---------------------------------------------------------------------------------- main
def run(pid, tier):
    t0 = time.time()
    v = Verdict(pid)
    known = Known()
    try:
        import z3
    except ImportError:
        v.inconc("z3 python bindings not available")
        return v.finish()
    ok, msg = build_tools()
    if not ok:
        v.inconc("genobl tools do not build against this tree: " + msg[-400:].replace("\n", " | "))
        write_evidence(pid, tier, {"states": 1, "transitions": 1, "traces_validated_against_impl": 0, "samples": ["tool build failed"]}, time.time() - t0)
        return v.finish()
    ok, msg = generate("quick" if tier == "quick" else "thorough")
    if not ok:
        v.inconc("the generator failed on the definition family (decided under C13): " + msg[-300:].replace("\n", " | "))
        write_evidence(pid, tier, {"states": 1, "transitions": 1, "traces_validated_against_impl": 0, "samples": ["generation failed"]}, time.time() - t0)
        return v.finish()
    names = sorted(f[:-5] for f in os.listdir(OUT) if f.endswith(".json"))
    rt = runtime_structs()
    nq = 0
    nsat = 0
    validated = 0
    samples = []
    rdir = replay_dir(pid)
    reported = set()
    modules = 0
    if pid == "C11":
        base_unsat = []
        cands = {}      # (base, datum, kind) -> list of twin names to compile
        twins = {}
        for n in names:
            facts = json.load(open(os.path.join(OUT, n + ".json")))
            twins[n] = facts["extra"]
        for n in names:
            facts = json.load(open(os.path.join(OUT, n + ".json")))
            if facts["extra"].get("pending_twin"):
                continue
            ast = dump(os.path.join(OUT, n + ".rs"))
            if "parse_error" in ast:
                v.inconc("generated module %s does not parse: %s" % (n, ast["parse_error"][:200]))
                continue
            modules += 1
            qs, base_sat, obligations = c11_queries(z3, n, facts, ast)
            nq += len(qs) + 1
            extra = facts["extra"]
            if not extra.get("twin") and not base_sat:
                base_unsat.append(n)
            if len(samples) < 6:
                samples.append(dict(module=n, obligations=obligations[:12], queries=len(qs), sat=[q for q in qs if q["sat"]][:3]))
            for q in qs:
                if not q["sat"]:
                    continue
                nsat += 1
                base = extra.get("base", n)
                cands.setdefault((base, q["field"], q["kind"]), []).append((n, q))
        for n in base_unsat:
            v.inconc("vacuity: the obligations of unperturbed module %s are unsatisfiable" % n)
        # replay: a SAT answer says "some real attribute differing from the recorded one would be accepted".
        # rustc decides: compile the twin(s) whose recorded attribute of that datum is wrong.
        kind_of = {"sizeup": "size", "sizedown": "size", "alignup": "align", "aligndown": "align", "uninit": "copy"}
        done = 0
        unreplayable = []
        twin_hits = []
        for (base, field, kind), lst in sorted(cands.items()):
            for (mod, q) in lst:
                ex = twins[mod]
                if ex.get("twin"):
                    # SAT inside a twin, for the very datum and attribute that twin records wrongly: the emitted
                    # obligations do not pin it -> rustc is asked
                    pert = kind_of.get(ex.get("perturbation"), "")
                    if pert == kind and q["datum"] == ex.get("datum"):
                        if kind == "copy" and ex.get("real_uninit_ok"):
                            continue
                        twin_hits.append((mod, base, field, kind))
                else:
                    if (base, field, kind) not in unreplayable and any(twins[t].get("twin") and twins[t].get("base") == base for t in names):
                        unreplayable.append((base, field, kind))
        for (tw, base, field, kind) in twin_hits:
            if done >= (12 if tier == "quick" else 80):
                break
            accepted, diag = compile_module(tw, os.path.join(OUT, tw + ".rs"))
            validated += 1
            done += 1
            if accepted:
                what = {"size": "a wrong recorded size", "align": "a wrong recorded alignment", "copy": "a may-be-uninitialised flag on a non-Copy type"}[kind]
                role = "c11-%s-not-checked" % kind
                text = "module generated with %s for field `%s` of definition `%s` (%s) is accepted by rustc" % (what, field, base, tw)
                path = os.path.join(rdir, tw + ".rs")
                sh(["cp", os.path.join(OUT, tw + ".rs"), path])
                kf = known.match(pid, role)
                if kf:
                    if role not in reported:
                        v.known_finding(kf["text"])
                elif role not in reported:
                    v.violation(path, "C11: " + text)
                reported.add(role)
        if unreplayable and not v.violations:
            hit = {(b, f, k) for (_, b, f, k) in twin_hits}
            rest = [u for u in unreplayable if u not in hit]
            if rest:
                v.inconc("C11: for %d (definition, field, attribute) triples — e.g. %s — the unperturbed module's obligations would also be satisfied by a real "
                         "attribute different from the recorded one; no twin exhibits it with the real types of this host, so it cannot be replayed with rustc" %
                         (len(rest), rest[:3]))
        # the twin whose datum is perturbed must be rejected outright (direct query with the real attributes)
        nq += 0
    else:
        only_if_sat = []
        if_sat = []
        for n in names:
            facts = json.load(open(os.path.join(OUT, n + ".json")))
            if facts["extra"].get("twin"):
                continue
            ast = dump(os.path.join(OUT, n + ".rs"))
            if "parse_error" in ast:
                v.inconc("generated module %s does not parse" % n)
                continue
            modules += 1
            qs = c14_queries(z3, n, facts, ast, rt)
            nq += len(qs)
            if len(samples) < 6:
                samples.append(dict(module=n, queries=qs[:4]))
            for q in qs:
                if q["sat"]:
                    nsat += 1
                    (only_if_sat if q["direction"] == "only-if" else if_sat).append(q)
        # replay with rustc probes
        probe_tpl = "fn is_send<T: Send>() {}\nfn is_sync<T: Sync>() {}\nfn probe() { %s }\n"
        if only_if_sat:
            # definition `threads`: variant 0 holds a raw-pointer field (not Send, not Sync), variant 1 a Cell (not Sync)
            tpath = os.path.join(OUT, "threads.rs")
            for trait, rec in (("Send", "m::Record0"), ("Sync", "m::Record1")):
                acc, diag = compile_module("threads", tpath, probe_tpl % ("is_%s::<%s>();" % (trait.lower(), rec)))
                validated += 1
                if acc:
                    role = "c14-record-%s-regardless-of-fields" % trait.lower()
                    kf = known.match(pid, role)
                    text = "generated %s is %s although one of its field types is not (definition `threads`)" % (rec, trait)
                    path = os.path.join(rdir, "threads-%s.rs" % trait.lower())
                    sh(["cp", tpath, path])
                    if kf:
                        v.known_finding(kf["text"])
                    else:
                        v.violation(path, "C14: " + text)
        # converse ("it can whenever all of them can"): for every module and every variant whose field types
        # are all known to be Send + Sync, rustc must accept is_send / is_sync of the record type
        GOOD = {"u8", "u16", "u32", "u64", "[u8;3]", "kgen_types::P12", "kgen_types::P24", "kgen_types::Zst", "kgen_types::Over16", "kgen_types::Tracked",
                "kgen_types::TrackedBox", "kgen_types::ZstDrop", "[u64;0]", "Option<u32>", "Box<str>", "std::sync::Mutex<std::cell::Cell<u32>>", "fn(*constu8,usize)->usize"}
        SEND_ONLY = {"kgen_types::NotSync"}      # Send but not Sync (holds a Cell)
        probed = 0
        for n in names:
            facts = json.load(open(os.path.join(OUT, n + ".json")))
            if facts["extra"].get("twin"):
                continue
            by_id = {d["id"]: d for d in facts["data"]}
            lines = []
            for vi, ids in enumerate(facts["variants"]):
                # per trait: a record whose field types are all Send (some of them not Sync, e.g. a Cell) must still be Send
                if all(norm(by_id[i]["type"]) in GOOD or norm(by_id[i]["type"]) in SEND_ONLY for i in ids):
                    lines.append("is_send::<m::Record%d>(); is_send::<m::CappedRecord%d<200>>();" % (vi, vi))
                if all(norm(by_id[i]["type"]) in GOOD for i in ids):
                    lines.append("is_sync::<m::Record%d>(); is_sync::<m::CappedRecord%d<200>>();" % (vi, vi))
            if not lines:
                continue
            acc, diag = compile_module(n, os.path.join(OUT, n + ".rs"), probe_tpl % " ".join(lines))
            validated += 1
            probed += 1
            if not acc:
                path = os.path.join(rdir, "%s-converse.rs" % n)
                sh(["cp", os.path.join(OUT, n + ".rs"), path])
                v.violation(path, "C14: a record of definition `%s` whose field types are all Send (resp. all Sync) is not Send (resp. Sync) itself: %s" % (n, diag))
                break
        if if_sat and not v.violations:
            v.note("note: the converse query is satisfiable in the model (%d cases, unknown type leaves) but rustc accepts all %d probes" % (len(if_sat), probed))
    coverage = {
        "states": max(nq, 1),
        "transitions": max(nq, 1),
        "traces_validated_against_impl": validated,
        "samples": samples or ["none"],
        "engine": "z3 over obligations extracted (syn) from modules generated by the real generator of /repo; rustc (cargo check) as replay oracle",
        "functions_encoded": ["output of truc::generator::generate for the definition family and its perturbed twins: const assertions, Copy-bounded helper structs "
                              "and their instantiations, struct declarations / repr / impls", "truc_runtime::data::RecordMaybeUninit declaration"],
        "bounds": "%d generated modules (%s tier of the family incl. twins with one wrong size / alignment / may-be-uninit flag per datum); real size, alignment, Copy, Send, Sync "
                  "of every field type symbolic" % (modules, tier),
        "unit_meaning": "states = transitions = SMT queries discharged",
        "satisfiable_queries": nsat,
        "repo_head": repo_head(),
        "exhaustive": False,
    }
    assumptions = ["compiler rules as three axioms: a const assertion is accepted iff its sides are equal; a `T: Copy` parameter instantiated with X is accepted iff X: Copy; "
                   "auto traits of a struct are the conjunction over its fields unless an explicit impl says otherwise (small table for std wrappers)",
                   "the generator is concrete (definition family + twins); the text generator itself is not encoded",
                   "SAT answers are confirmed with rustc (cargo check of the module, with Send/Sync probes for C14) before being reported"]
    write_evidence(pid, tier, coverage, time.time() - t0, violations=len(v.violations), assumptions=assumptions)
    return v.finish()


def replay(pid, path):
    acc, diag = compile_module("replay", path)
    print("rustc accepted" if acc else "rustc rejected: " + diag)
    return 1 if acc else 0
