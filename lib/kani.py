"""Running Kani harness batches and reading CBMC's verdicts."""
import os
import re
import resource
import subprocess
import time

from common import NCPU, env_offline, sh


class HarnessResult:
    def __init__(self, name):
        self.name = name
        self.status = "MISSING"     # SUCCESSFUL / FAILED / ERROR / TIMEOUT / MISSING
        self.checks = 0
        self.failed = 0
        self.unreachable = 0
        self.undetermined = 0
        self.covers_total = 0
        self.covers_sat = 0
        self.failed_checks = []     # dicts: desc, file, line, func
        self.time_s = 0.0
        self.stubs = []
        self.unwinding_failure = False
        self.raw = ""

    def as_dict(self):
        return {
            "harness": self.name, "status": self.status, "checks": self.checks,
            "failed": self.failed, "unreachable": self.unreachable,
            "covers": "%d/%d" % (self.covers_sat, self.covers_total),
            "solver_s": round(self.time_s, 2),
            "failed_checks": [c["desc"] + " @" + c["file"] + ":" + str(c["line"]) for c in self.failed_checks],
        }


_FAILED_RE = re.compile(r'Failed Checks: (.*)\n\s*File: "([^"]*)", line (\d+), in (.*)')


def parse_terse(output, harnesses):
    """Parse `--output-format terse` output (with or without `Thread n:` prefixes)."""
    res = {h: HarnessResult(h) for h in harnesses}
    # split per thread
    threads = {}
    cur = "0"
    for line in output.splitlines():
        m = re.match(r"Thread (\d+): ?(.*)", line)
        if m:
            cur = m.group(1)
            threads.setdefault(cur, []).append(m.group(2))
        else:
            threads.setdefault(cur, []).append(line)
    for tid, lines in threads.items():
        text = "\n".join(lines)
        # blocks start at "Checking harness X..."
        parts = re.split(r"Checking harness (\S+?)\.\.\.", text)
        # parts: [pre, name1, body1, name2, body2...]
        for i in range(1, len(parts), 2):
            full = parts[i]
            body = parts[i + 1] if i + 1 < len(parts) else ""
            short = full.split("::")[-1]
            r = res.get(short) or res.get(full)
            if r is None:
                continue
            _fill(r, body)
    return res


def _last_thread(threads):
    if not threads:
        return "0"
    return list(threads.keys())[-1]


def _fill(r, body):
    r.raw = body
    r.stubs = re.findall(r"- Stub: (.*)", body)
    m = re.search(r"\*\* (\d+) of (\d+) failed(?: \(([^)]*)\))?", body)
    if m:
        r.failed = int(m.group(1))
        r.checks = int(m.group(2))
        extra = m.group(3) or ""
        mu = re.search(r"(\d+) unreachable", extra)
        if mu:
            r.unreachable = int(mu.group(1))
        mu = re.search(r"(\d+) undetermined", extra)
        if mu:
            r.undetermined = int(mu.group(1))
    m = re.search(r"\*\* (\d+) of (\d+) cover properties satisfied", body)
    if m:
        r.covers_sat = int(m.group(1))
        r.covers_total = int(m.group(2))
    for m in _FAILED_RE.finditer(body):
        r.failed_checks.append({"desc": m.group(1).strip(), "file": m.group(2), "line": int(m.group(3)),
                                "func": m.group(4).strip()})
    m = re.search(r"Verification Time: ([0-9.]+)s", body)
    if m:
        r.time_s = float(m.group(1))
    if "unwinding failures" in body or any("unwinding assertion" in c["desc"] for c in r.failed_checks):
        r.unwinding_failure = True
    if "VERIFICATION:- SUCCESSFUL" in body:
        r.status = "SUCCESSFUL"
    elif "VERIFICATION:- FAILED" in body:
        r.status = "FAILED"
    if re.search(r"Status: ERROR|CBMC failed|out of memory|std::bad_alloc|Killed|CBMC timed out", body):
        r.status = "ERROR"


def _limit_mem(gb):
    def f():
        b = int(gb * (1 << 30))
        resource.setrlimit(resource.RLIMIT_AS, (b, b))
    return f


def run_batch(crate_dir, target_dir, harnesses, flags=None, rustflags=None, jobs=None, timeout=3600,
              mem_gb=None, log_path=None, extra_env=None):
    """Run `cargo kani` once for a list of harnesses (Kani's own thread pool), parse verdicts.

    Returns (results: dict name -> HarnessResult, raw_output, wall_seconds, rc)."""
    jobs = jobs or min(NCPU, max(1, len(harnesses)))
    cmd = ["cargo", "kani", "--target-dir", target_dir, "--output-format", "terse", "-j", str(jobs)]
    cmd += flags or []
    for h in harnesses:
        cmd += ["--harness", h]
    envx = dict(extra_env or {})
    if rustflags:
        envx["RUSTFLAGS"] = rustflags
    env = env_offline(envx)
    t0 = time.time()
    try:
        p = subprocess.run(cmd, cwd=crate_dir, env=env, timeout=timeout, stdout=subprocess.PIPE,
                           stderr=subprocess.STDOUT, text=True, errors="replace")
        rc, out = p.returncode, p.stdout
    except subprocess.TimeoutExpired as ex:
        o = ex.stdout
        out = o if isinstance(o, str) else (o or b"").decode(errors="replace")
        out += "\n[batch timeout after %ss]" % timeout
        rc = 124
        subprocess.run(["pkill", "-f", "cbmc.*" + os.path.basename(target_dir)], check=False)
    wall = time.time() - t0
    if log_path:
        os.makedirs(os.path.dirname(log_path), exist_ok=True)
        with open(log_path, "w") as f:
            f.write(" ".join(cmd) + "\n" + out)
    res = parse_terse(out, harnesses)
    compile_error = ("error: could not compile" in out) or ("error[E" in out) or ("Failed to execute cargo" in out)
    for r in res.values():
        if r.status == "MISSING":
            if rc == 124:
                r.status = "TIMEOUT"
            elif compile_error:
                r.status = "ERROR"
    return res, out, wall, rc


def playback(crate_dir, target_dir, harness, flags=None, rustflags=None, timeout=1800, extra_env=None):
    """Re-run one failing harness with concrete playback; returns list of
    (check description, [byte lists]) — one entry per failed check."""
    cmd = ["cargo", "kani", "--target-dir", target_dir, "--output-format", "terse",
           "-Z", "concrete-playback", "--concrete-playback=print", "--harness", harness]
    cmd += flags or []
    envx = dict(extra_env or {})
    if rustflags:
        envx["RUSTFLAGS"] = rustflags
    env = env_offline(envx)
    rc, out, dt = sh(cmd, cwd=crate_dir, env=env, timeout=timeout)
    tests = []
    for m in re.finditer(r"/// Check for `[^`]*`: \"+(.*?)\"+\n(.*?)kani::concrete_playback_run", out, re.S):
        desc = m.group(1)
        body = m.group(2)
        vals = []
        for vm in re.finditer(r"vec!\[([0-9, ]*)\],", body):
            txt = vm.group(1).strip()
            vals.append([int(x) for x in txt.split(",") if x.strip() != ""])
        tests.append((desc, vals))
    return tests, out


def write_replay_file(path, harness, values, comment=None):
    with open(path, "w") as f:
        f.write(harness + "\n")
        if comment:
            for c in comment.splitlines():
                f.write("# " + c + "\n")
        for v in values:
            f.write(",".join(str(b) for b in v) + "\n")
    return path
