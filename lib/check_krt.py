"""C08 / C09 / C10 — Kani (CBMC) over truc_runtime::convert, harness crate /verif/krt."""
import os
import re
import time

import kani
from common import (BUILD, EXIT_INCONCLUSIVE, Known, REPO, VERIF, Verdict, env_offline, repo_head,
                    replay_dir, seed, sh, write_evidence)

CRATE = os.path.join(VERIF, "krt")
TARGET_KANI = os.path.join(BUILD, "krt-kani")
TARGET_NATIVE = os.path.join(BUILD, "krt-native")
FLAGS = ["-Z", "stubbing"]

HARNESSES = {
    "C08": {
        "quick": ["c08_plain_n3", "c08_tracked_n3", "c08_heap_n3", "c08_zst_n3", "c08_zst_a8_n3", "c08_big_n2",
                  "c08_over16_n3", "c08_wrapper_n2", "c08_plain_to_tracked_n3", "c08_tracked_to_plain_n3", "c08_twin_n3"],
        "thorough": ["c08_plain_n5", "c08_tracked_n5", "c08_heap_n5", "c08_zst_n5", "c08_big_n4",
                     "c08_over16_n5", "c08_wrapper_n2", "c08_twin_n3",
                     "c08_plain_n3", "c08_tracked_n3", "c08_heap_n3", "c08_zst_n3", "c08_zst_a8_n3", "c08_over16_n3",
                     "c08_plain_to_tracked_n3", "c08_tracked_to_plain_n3", "c08_plain_n7", "c08_tracked_n7", "c08_zst_n7"],
    },
    "C09": {
        "quick": ["c09_plain_n3", "c09_tracked_n3", "c09_heap_n3", "c09_zst_n3", "c09_over16_n3",
                  "c09_big_n2", "c09_plain_to_tracked_n3", "c09_tracked_to_plain_n3", "c09_twin_n3"],
        "thorough": ["c09_plain_n5", "c09_tracked_n5", "c09_heap_n5", "c09_zst_n5", "c09_over16_n5",
                     "c09_big_n4", "c09_twin_n3", "c09_tracked_n3", "c09_heap_n3", "c09_plain_to_tracked_n3", "c09_tracked_to_plain_n3",
                     "c09_tracked_n7", "c09_plain_to_tracked_n5"],
    },
    "C10": {
        "quick": ["c10_size_ne_align_eq_n3", "c10_size_eq_align_ne_n3", "c10_size_ne_align_ne_n3",
                  "c10_zst_vs_byte_n3", "c10_zst_vs_tracked_n3", "c10_tracked_vs_zst_n3", "c10_zst_align_1_to_8_n3", "c10_zst_align_8_to_1_n3",
                  "c10_bytes4_vs_u32_n3", "c10_heap_vs_over16_n3", "c10_rev_align_4_to_1_n3",
                  "c10_rev_align_16_to_8_n3", "c10_rev_size_6_to_4_n3"],
        "thorough": ["c10_size_ne_align_eq_n5", "c10_size_eq_align_ne_n5", "c10_zst_vs_tracked_n5",
                     "c10_size_ne_align_eq_n3", "c10_size_eq_align_ne_n3", "c10_size_ne_align_ne_n3",
                     "c10_zst_vs_byte_n3", "c10_zst_vs_tracked_n3", "c10_tracked_vs_zst_n3", "c10_zst_align_1_to_8_n3", "c10_zst_align_8_to_1_n3",
                     "c10_bytes4_vs_u32_n3", "c10_heap_vs_over16_n3", "c10_rev_align_4_to_1_n3",
                     "c10_rev_align_16_to_8_n3", "c10_rev_size_6_to_4_n3"],
    },
}

BOUNDS = {
    "C08": "vector length n <= N (N = 3 quick, 5 thorough and 7 for three of the pairs; 64-byte elements 2 / 4), capacity N (and no allocation "
           "for the empty vector), keep/abandon pattern, input values, output-value mask and 'modify previous "
           "output' pattern all symbolic; eight element type pairs (plain u32, droppable 4/2, heap owner 16/8, "
           "zero-size with destructor, 64-byte, align-16, plain -> droppable and droppable -> plain of equal layout); outside: n > N, other element types",
    "C09": "as C08 plus failure index f < n, failure kind (error / panic), converter phase (fails holding its "
           "input / after dropping it / after building and dropping an output) and error tag symbolic",
    "C10": "3x3 layout matrix instantiations listed in coverage.samples; n <= N symbolic",
}

ASSUMPTIONS_COMMON = [
    "Kani 0.68 / CBMC 6.11 compile the real truc_runtime crate from /repo (path dependency); MIR semantics, no optimisation",
    "stub: std::panic::catch_unwind -> model that runs the closure and turns a signalled converter panic into Err(payload) "
    "(the converter signals by leaving through its error channel; sound because the unwind edge of the converter call "
    "drops nothing live — side condition re-checked on the MIR dump each run)",
    "unwinding assertions on; unwind bound N+2",
]


def _build_native(profile):
    cmd = ["cargo", "build", "--offline", "--target-dir", TARGET_NATIVE, "--bin", "replay"]
    if profile == "release":
        cmd.append("--release")
    rc, out, dt = sh(cmd, cwd=CRATE, env=env_offline())
    return rc == 0, out


def _native_replay(path, profile):
    exe = os.path.join(TARGET_NATIVE, profile if profile == "release" else "debug", "replay")
    rc, out, dt = sh([exe, path], timeout=60)
    fails = re.findall(r"^FAIL: (.*)$", out, re.M)
    done = "REPLAY-DONE" in out
    return fails, done, out


def _miri_replay(path):
    rc, out, dt = sh(["cargo", "+nightly", "miri", "run", "--offline", "--target-dir", TARGET_NATIVE + "-miri",
                      "--bin", "replay", "--", path], cwd=CRATE,
                     env=env_offline({"MIRIFLAGS": "-Zmiri-disable-isolation"}), timeout=600)
    ub = re.search(r"error: Undefined Behavior: (.*)", out)
    return (ub.group(1) if ub else None), out


def mir_side_condition():
    """The panic model relies on: on the unwind edge of the converter call inside the loop closure,
    no live value is dropped except through cleanup that the model also performs. Re-derived from
    the MIR of the current tree: the cleanup chain reached from the call's unwind target must
    contain no `drop(` of a local other than the moved argument temporaries."""
    rc, out, dt = sh(["cargo", "+nightly", "rustc", "--offline", "-p", "truc_runtime", "--lib", "--target-dir",
                      os.path.join(BUILD, "mir-rt"), "--", "-Zunpretty=mir", "-C", "debug-assertions=off"],
                     cwd=REPO, env=env_offline())
    if rc != 0 or "fn convert::try_convert_vec_in_place" not in out and "try_convert_vec_in_place" not in out:
        # stale cache gives an empty dump: touch and retry once
        os.utime(os.path.join(REPO, "truc_runtime/src/lib.rs"))
        rc, out, dt = sh(["cargo", "+nightly", "rustc", "--offline", "-p", "truc_runtime", "--lib", "--target-dir",
                          os.path.join(BUILD, "mir-rt"), "--", "-Zunpretty=mir", "-C", "debug-assertions=off"],
                         cwd=REPO, env=env_offline())
    m = re.search(r"fn (?:convert::)?try_convert_vec_in_place::\{closure#0\}.*?\n\}\n", out, re.S)
    if not m:
        return None, "loop closure not found in MIR dump"
    body = m.group(0)
    blocks = {}
    for bm in re.finditer(r"\n    (bb\d+)(?: \(cleanup\))?: \{\n(.*?)\n    \}", body, re.S):
        blocks[bm.group(1)] = bm.group(2)
    calls = [(b, t) for b, t in blocks.items() if re.search(r"<C as Fn<|as Fn<\(T, Option<&mut U>\)>>::call", t)]
    if len(calls) != 1:
        return None, "expected exactly one converter call in the loop closure, found %d" % len(calls)
    b, t = calls[0]
    um = re.search(r"unwind: (bb\d+)", t)
    if not um:
        return True, "converter call has no unwind edge with cleanup (unwind continue)"
    # drop flags known to be false at the call: assigned `const false` in the call's block before the call
    pre = t[:t.index(" as Fn<")]
    false_flags = set(re.findall(r"(_\d+) = const false;", pre)) - set(re.findall(r"(_\d+) = const true;", pre))
    seen, todo, drops = set(), [um.group(1)], []
    while todo:
        x = todo.pop()
        if x in seen or x not in blocks:
            continue
        seen.add(x)
        tx = blocks[x]
        drops += re.findall(r"drop\(([^)]*\)?)\) ->", tx)
        term = tx.strip().split("\n")[-1]
        sm = re.search(r"switchInt\(copy (_\d+)\) -> \[0: (bb\d+), otherwise: (bb\d+)\]", term)
        if sm and sm.group(1) in false_flags:
            todo.append(sm.group(2))
        else:
            todo += re.findall(r"(bb\d+)", term)
    if drops:
        return False, "unwind path of the converter call drops live locals %s" % drops
    return True, "unwind path of the converter call (%s) drops nothing" % um.group(1)


def refusal_side_condition():
    """C10, the clause Kani cannot see (no unwinding): when a refusal assertion fails, the input vector is
    still owned by the function's frame, so unwinding drops it element by element. On the MIR of the current
    tree: at every `assert_failed` call of try_convert_vec_in_place the unwind path drops the input parameter
    `_1`, and the drop flag guarding that drop is definitely set there (forward data-flow over the CFG)."""
    rc, out, dt = sh(["cargo", "+nightly", "rustc", "--offline", "-p", "truc_runtime", "--lib", "--target-dir",
                      os.path.join(BUILD, "mir-rt"), "--", "-Zunpretty=mir", "-C", "debug-assertions=off"],
                     cwd=REPO, env=env_offline())
    if "try_convert_vec_in_place" not in out:
        os.utime(os.path.join(REPO, "truc_runtime/src/lib.rs"))
        rc, out, dt = sh(["cargo", "+nightly", "rustc", "--offline", "-p", "truc_runtime", "--lib", "--target-dir",
                          os.path.join(BUILD, "mir-rt"), "--", "-Zunpretty=mir", "-C", "debug-assertions=off"],
                         cwd=REPO, env=env_offline())
    m = re.search(r"\nfn (?:convert::)?try_convert_vec_in_place\(.*?\n\}\n", out, re.S)
    if not m:
        return None, "function not found in the MIR dump"
    body = m.group(0)
    blocks = {}
    for bm in re.finditer(r"\n    (bb\d+)(?: \(cleanup\))?: \{\n(.*?)\n    \}", body, re.S):
        blocks[bm.group(1)] = bm.group(2)
    succ = {b: re.findall(r"(bb\d+)", t.strip().split("\n")[-1]) for b, t in blocks.items()}
    refusals = [b for b, t in blocks.items() if "assert_failed" in t]
    if not refusals:
        return False, "no refusal assertion (assert_failed call) left in try_convert_vec_in_place"
    # which flag guards drop(_1)?
    guard = None
    for b, t in blocks.items():
        sm = re.search(r"switchInt\(copy (_\d+)\) -> \[0: (bb\d+), otherwise: (bb\d+)\]", t)
        if sm and re.search(r"drop\(_1\)", blocks.get(sm.group(3), "")):
            guard = sm.group(1)
    uncond = any(re.search(r"drop\(_1\)", t) for t in blocks.values())
    if not uncond:
        return False, "no unwind path drops the input vector"
    # forward data-flow of the guard flag
    state = {"bb0": {None}}
    work = ["bb0"]
    at_refusal = {}
    while work:
        b = work.pop()
        vals = set(state[b])
        t = blocks.get(b, "")
        outvals = set()
        for v0 in vals:
            v_ = v0
            for line in t.split("\n"):
                fm = re.match(r"\s*(_\d+) = const (true|false);", line)
                if fm and fm.group(1) == guard:
                    v_ = (fm.group(2) == "true")
                if "assert_failed" in line:
                    at_refusal.setdefault(b, set()).add(v_)
            outvals.add(v_)
        for s_ in succ.get(b, []):
            if s_ not in blocks:
                continue
            new = state.get(s_, set()) | outvals
            if new != state.get(s_, set()):
                state[s_] = new
                work.append(s_)
    if guard is None:
        return True, "the input vector is dropped unconditionally on unwinding"
    bad = {b: v for b, v in at_refusal.items() if v != {True}}
    if bad:
        return False, "at the refusal assertion in %s the input vector may already have been moved out (drop flag %s = %s)" % (sorted(bad), guard, bad)
    return True, "at every refusal assertion (%s) the drop flag %s of the input vector is set: unwinding drops it" % (sorted(at_refusal), guard)


def _expected_refusal(fc):
    return (fc["file"].endswith("truc_runtime/src/convert.rs") and "try_convert_vec_in_place" in fc["func"]
            and "{closure" not in fc["func"])


def run(pid, tier):
    t0 = time.time()
    v = Verdict(pid)
    known = Known()
    names = HARNESSES[pid][tier]
    log = os.path.join(BUILD, "logs", "%s-%s.log" % (pid, tier))
    timeout = 1500 if tier == "quick" else 3 * 3600
    res, raw, wall, rc = kani.run_batch(CRATE, TARGET_KANI, names, flags=FLAGS, timeout=timeout, log_path=log)
    side_ok, side_txt = (True, "")
    if pid == "C09":
        side_ok, side_txt = mir_side_condition()
        v.note("panic-model side condition: %s" % side_txt)
        if side_ok is not True:
            v.inconc("panic-model side condition does not hold on this tree: %s" % side_txt)

    candidates = []   # (harness, reason)
    refusal_txt = ""
    if pid == "C10":
        rok, refusal_txt = refusal_side_condition()
        v.note("refusal side condition: %s" % refusal_txt)
        if rok is None:
            v.inconc("refusal side condition could not be evaluated: %s" % refusal_txt)
        elif rok is False:
            # replayed natively with one concrete refused vector (two elements)
            for prof in ("dev", "release"):
                _build_native(prof)
            rdir = replay_dir(pid)
            shown = False
            for hn in ("c10_size_eq_align_ne_n3", "c10_size_ne_align_eq_n3", "c10_rev_align_16_to_8_n3"):
                path = os.path.join(rdir, "%s-side-condition.replay" % hn)
                vals = [[2, 0, 0, 0, 0, 0, 0, 0], [0]] + [[1], [0], [7]] * 3 + [[0]]
                kani.write_replay_file(path, hn, vals, comment="concrete witness for the MIR side condition: %s" % refusal_txt)
                fails = _native_replay(path, "dev")[0] + _native_replay(path, "release")[0]
                fails = [f for f in fails if f.startswith("C10")]
                if fails and not shown:
                    shown = True
                    v.violation(path, "MIR: %s; native replay: %s" % (refusal_txt, fails[0]))
            if not shown:
                v.inconc("refusal side condition fails (%s) but the native replays show nothing" % refusal_txt)
    total_checks = 0
    solver_s = 0.0
    samples = []
    for n in names:
        r = res[n]
        total_checks += r.checks
        solver_s += r.time_s
        samples.append(r.as_dict())
        if r.status in ("MISSING", "ERROR", "TIMEOUT"):
            v.inconc("harness %s: %s (see %s)" % (n, r.status, log))
            continue
        if r.unwinding_failure:
            v.inconc("harness %s: unwinding assertion failed — bound too small for this tree" % n)
            continue
        if "twin" in n:
            # vacuity witness: exactly the deliberately false check must fail
            descs = [c["desc"] for c in r.failed_checks]
            if r.status == "FAILED" and descs and all("TWIN" in d for d in descs):
                continue
            if r.status == "SUCCESSFUL":
                v.inconc("vacuity: twin harness %s passed — the end of the harness is unreachable" % n)
            else:
                candidates.append((n, "twin fails for other reasons: %s" % descs))
            continue
        if pid == "C10" and "control" not in n:
            bad = [c for c in r.failed_checks if not _expected_refusal(c)]
            good = [c for c in r.failed_checks if _expected_refusal(c)]
            if bad or not good:
                candidates.append((n, "; ".join(c["desc"] for c in bad) or "no refusal"))
            continue
        if r.status == "FAILED":
            candidates.append((n, "; ".join(c["desc"] for c in r.failed_checks)))
        elif r.covers_total and r.covers_sat < r.covers_total and pid != "C09":
            v.inconc("vacuity: harness %s passed but its end-of-harness cover is not satisfied" % n)
        elif pid == "C09" and r.covers_sat < 2:
            v.inconc("vacuity: harness %s passed but an arm's end was not reached (%d/%d covers)" %
                     (n, r.covers_sat, r.covers_total))

    validated = 0
    if candidates:
        for prof in ("dev", "release"):
            ok, out = _build_native(prof)
            if not ok:
                v.inconc("native replay build (%s) failed" % prof)
        rdir = replay_dir(pid)
        for n, reason in candidates:
            if v.violations and len(v.violations) >= 2:
                break
            tests, pout = kani.playback(CRATE, TARGET_KANI, n, flags=FLAGS)
            if not tests:
                v.inconc("harness %s fails (%s) but no counterexample values could be extracted" % (n, reason))
                continue
            reported = set()
            reproduced_any = False
            for i, (desc, vals) in enumerate(tests):
                if pid == "C10" and ("size_of" in desc or "align_of" in desc):
                    continue
                path = os.path.join(rdir, "%s-%d.replay" % (n, i))
                kani.write_replay_file(path, n.replace("_twin", "_tracked"), vals,
                                       comment="solver counterexample for: %s\nrepo %s" % (desc, repo_head()))
                fails_dev, done_dev, o1 = _native_replay(path, "dev")
                fails_rel, done_rel, o2 = _native_replay(path, "release")
                validated += 1
                fails = fails_dev or fails_rel
                if not fails and (not done_dev or not done_rel):
                    fails = ["native run crashed: " + (o1 + o2)[-300:].replace("\n", " | ")]
                if not fails:
                    ub, mout = _miri_replay(path)
                    if ub:
                        fails = ["undefined behaviour (Miri): " + ub]
                if fails:
                    reproduced_any = True
                    for f in fails:
                        if f in reported:
                            continue
                        reported.add(f)
                        key = re.sub(r"[^a-z0-9]+", "-", f.lower()).strip("-")[:60]
                        kf = known.match(pid, key)
                        if kf:
                            v.known_finding("%s [%s]" % (kf["text"], n))
                        else:
                            v.violation(path, "%s: solver: %s; native replay (dev/release): %s" % (n, desc, f))
            if not reproduced_any:
                v.inconc("harness %s: solver reports '%s' but the counterexample does not reproduce natively" %
                         (n, reason))

    coverage = {
        "states": max(total_checks, 1),
        "transitions": max(len([n for n in names if res[n].status in ("SUCCESSFUL", "FAILED")]), 1),
        "traces_validated_against_impl": validated,
        "samples": samples,
        "engine": "Kani 0.68 (CBMC 6.11, cadical) over /verif/krt + /repo/truc_runtime",
        "functions_encoded": ["truc_runtime::convert::try_convert_vec_in_place", "truc_runtime::convert::convert_vec_in_place",
                              "alloc::vec::Vec (with_capacity, set_len, as_mut_slice, drop)", "core::ptr::{copy_nonoverlapping, write}"],
        "bounds": BOUNDS[pid],
        "unit_meaning": "states = CBMC verification conditions decided; transitions = harness queries discharged",
        "queries": len(names),
        "solver_s": round(solver_s, 1),
        "repo_head": repo_head(),
        "side_condition": side_txt or refusal_txt,
        "stubs": sorted({s for n in names for s in res[n].stubs}),
        "exhaustive": False,
    }
    assumptions = list(ASSUMPTIONS_COMMON)
    if pid == "C09":
        assumptions += [
            "stub: alloc::alloc::dealloc_nonnull -> ghost counting releases of the input buffer (frees nothing, so "
            "use-after-free inside the function is not checked in the C09 harnesses; the C08 harnesses keep CBMC's pointer checks)",
            "stub: std::panic::resume_unwind -> model that checks the post-conditions and payload identity, then ends the path",
            "outside: the language's own unwinding of caller frames; converters that panic while their own destructors run",
        ]
    if pid == "C10":
        assumptions += ["the drop of the refused input during unwinding is language semantics: the harness decides its "
                        "precondition (refusal precedes any element access: converter unreachable, no element dropped)"]
    write_evidence(pid, tier, coverage, time.time() - t0, violations=len(v.violations), assumptions=assumptions)
    return v.finish()


def replay(pid, path):
    ok, out = _build_native("dev")
    fails, done, o = _native_replay(path, "dev")
    print(o)
    return 1 if fails else 0
