//! Dumps the compile-time obligations of a generated module as JSON: struct declarations (repr,
//! generics with bounds, fields), trait impls (incl. unsafe / negative ones), const assertions, and
//! every turbofish instantiation of a struct that has bounded type parameters.
use quote::ToTokens;
use serde_json::{json, Value};
use syn::visit::Visit;

fn cfg_off(attrs: &[syn::Attribute]) -> bool {
    attrs.iter().any(|a| a.path().is_ident("cfg") && a.meta.to_token_stream().to_string().contains("truc_verif"))
}

fn ts<T: ToTokens>(t: &T) -> String {
    t.to_token_stream().to_string().replace(" :: ", "::").replace(" < ", "<").replace(" >", ">").replace("< ", "<").replace(" ,", ",")
}

struct V {
    structs: Vec<Value>,
    impls: Vec<Value>,
    macros: Vec<Value>,
    turbofish: Vec<Value>,
    consts: Vec<Value>,
    calls: Vec<Value>,
    cur_fn: String,
    cur_impl: String,
}

impl<'ast> Visit<'ast> for V {
    fn visit_item_struct(&mut self, s: &'ast syn::ItemStruct) {
        let mut repr = Vec::new();
        for a in &s.attrs {
            if a.path().is_ident("repr") {
                repr.push(ts(&a.meta));
            }
        }
        let generics: Vec<Value> = s
            .generics
            .params
            .iter()
            .map(|p| match p {
                syn::GenericParam::Type(t) => json!({"kind": "type", "name": t.ident.to_string(), "bounds": t.bounds.iter().map(|b| ts(b)).collect::<Vec<_>>()}),
                syn::GenericParam::Const(c) => json!({"kind": "const", "name": c.ident.to_string(), "ty": ts(&c.ty)}),
                syn::GenericParam::Lifetime(l) => json!({"kind": "lifetime", "name": l.lifetime.to_string()}),
            })
            .collect();
        let fields: Vec<Value> = s
            .fields
            .iter()
            .map(|f| json!({"name": f.ident.as_ref().map(|i| i.to_string()), "ty": ts(&f.ty), "vis": ts(&f.vis), "cfg_off": cfg_off(&f.attrs)}))
            .collect();
        self.structs.push(json!({"name": s.ident.to_string(), "repr": repr, "generics": generics, "fields": fields, "vis": ts(&s.vis)}));
        syn::visit::visit_item_struct(self, s);
    }
    fn visit_item_mod(&mut self, m: &'ast syn::ItemMod) {
        if cfg_off(&m.attrs) {
            return;
        }
        syn::visit::visit_item_mod(self, m);
    }
    fn visit_item_impl(&mut self, i: &'ast syn::ItemImpl) {
        if cfg_off(&i.attrs) {
            return;
        }
        let tr = i.trait_.as_ref().map(|(neg, p, _)| json!({"negative": neg.is_some(), "path": ts(p)}));
        let saved = self.cur_impl.clone();
        self.cur_impl = format!("{}{}", i.trait_.as_ref().map(|(_, p, _)| format!("{} for ", ts(p))).unwrap_or_default(), ts(&i.self_ty));
        self.impls.push(json!({"unsafe": i.unsafety.is_some(), "trait": tr, "self_ty": ts(&i.self_ty),
            "fns": i.items.iter().filter_map(|it| if let syn::ImplItem::Fn(f) = it { Some(f.sig.ident.to_string()) } else { None }).collect::<Vec<_>>()}));
        syn::visit::visit_item_impl(self, i);
        self.cur_impl = saved;
    }
    fn visit_impl_item_fn(&mut self, f: &'ast syn::ImplItemFn) {
        let saved = self.cur_fn.clone();
        self.cur_fn = f.sig.ident.to_string();
        syn::visit::visit_impl_item_fn(self, f);
        self.cur_fn = saved;
    }
    fn visit_expr_method_call(&mut self, c: &'ast syn::ExprMethodCall) {
        let m = c.method.to_string();
        if ["read", "write", "get", "get_mut"].contains(&m.as_str()) {
            self.calls.push(json!({"impl": self.cur_impl, "fn": self.cur_fn, "method": m, "receiver": ts(&c.receiver),
                "turbofish": c.turbofish.as_ref().map(|t| t.args.iter().map(|a| ts(a)).collect::<Vec<_>>()),
                "args": c.args.iter().map(|a| ts(a)).collect::<Vec<_>>()}));
        }
        syn::visit::visit_expr_method_call(self, c);
    }
    fn visit_item_macro(&mut self, m: &'ast syn::ItemMacro) {
        self.macros.push(json!({"path": ts(&m.mac.path), "tokens": m.mac.tokens.to_string()}));
    }
    fn visit_item_const(&mut self, c: &'ast syn::ItemConst) {
        self.consts.push(json!({"name": c.ident.to_string(), "ty": ts(&c.ty), "expr": ts(&c.expr)}));
    }
    fn visit_expr_path(&mut self, p: &'ast syn::ExprPath) {
        for seg in &p.path.segments {
            if let syn::PathArguments::AngleBracketed(ab) = &seg.arguments {
                self.turbofish.push(json!({"name": seg.ident.to_string(), "args": ab.args.iter().map(|a| ts(a)).collect::<Vec<_>>()}));
            }
        }
        syn::visit::visit_expr_path(self, p);
    }
}

fn main() {
    let path = std::env::args().nth(1).expect("file");
    let src = std::fs::read_to_string(&path).expect("read");
    let file = syn::parse_file(&src).unwrap_or_else(|e| {
        println!("{}", json!({"parse_error": e.to_string()}));
        std::process::exit(0);
    });
    let mut v = V { structs: vec![], impls: vec![], macros: vec![], turbofish: vec![], consts: vec![], calls: vec![], cur_fn: String::new(), cur_impl: String::new() };
    v.visit_file(&file);
    println!("{}", json!({"structs": v.structs, "impls": v.impls, "macros": v.macros, "turbofish": v.turbofish, "consts": v.consts, "calls": v.calls}));
}
