//! Runs the real generator on the definition family and on "twins" in which one datum's recorded
//! size / alignment / may-be-uninitialised flag is deliberately wrong; writes each module with the
//! facts the definition records (what the generated code must force the compiler to check).
//! usage: genobl_gen <outdir> [quick|thorough]
use std::{fs, path::PathBuf};

use kgen_family::{build_with, family, Perturb, Step};
use serde_json::{json, Value};
use truc::generator::{
    config::GeneratorConfig,
    fragment::{clone::CloneImplGenerator, serde::SerdeImplGenerator, FragmentGenerator},
    generate,
};
use truc::record::definition::{NativeDatumDetails, RecordDefinition};

fn facts(d: &RecordDefinition<NativeDatumDetails>) -> Value {
    let data: Vec<Value> = d
        .datum_definitions()
        .map(|dd| {
            json!({"id": format!("{}", dd.id()).parse::<usize>().unwrap(), "name": dd.name(), "type": dd.details().type_name(),
                   "size": dd.details().size(), "align": dd.details().type_align(), "allow_uninit": dd.details().allow_uninit(),
                   "offset": dd.details().offset()})
        })
        .collect();
    let variants: Vec<Value> = d
        .variants()
        .map(|v| json!(v.data_sorted().map(|x| format!("{}", x).parse::<usize>().unwrap()).collect::<Vec<_>>()))
        .collect();
    json!({"data": data, "variants": variants, "max_size": d.max_size(), "max_type_align": d.max_type_align()})
}

fn emit(out: &PathBuf, name: &str, d: &RecordDefinition<NativeDatumDetails>, extra: Value) {
    // the C14-only definition holds types that are neither Clone nor serde-able
    let cfg = if name == "threads" {
        GeneratorConfig::default()
    } else {
        GeneratorConfig::default_with_custom_generators(vec![
            Box::new(CloneImplGenerator) as Box<dyn FragmentGenerator>,
            Box::new(SerdeImplGenerator),
        ])
    };
    let code = generate(d, &cfg);
    fs::write(out.join(format!("{}.rs", name)), code).unwrap();
    let mut f = facts(d);
    f["extra"] = extra;
    fs::write(out.join(format!("{}.json", name)), serde_json::to_string_pretty(&f).unwrap()).unwrap();
}

fn main() {
    let out = PathBuf::from(std::env::args().nth(1).expect("outdir"));
    let tier = std::env::args().nth(2).unwrap_or_else(|| "quick".to_string());
    fs::create_dir_all(&out).unwrap();
    for def in family() {
        if tier == "quick" && (def.tier == "thorough" || def.tier.starts_with("quick-")) {
            continue;
        }
        let d = build_with(&def, None);
        emit(&out, def.name, &d, json!({"twin": false}));
        // twins: one wrong piece of recorded type information per datum
        if def.tier == "genobl" {
            continue;
        }
        let mut occ: std::collections::BTreeMap<&str, usize> = Default::default();
        let mut idx = 0usize;
        for st in &def.steps {
            if let Step::AddRm(n, _) = st {
                // a datum that never makes it into a variant: wrong recorded information about it must
                // not matter (it is not a field) — these twins must be ACCEPTED by the compiler
                let o = *occ.get(n).unwrap_or(&0);
                occ.insert(n, o + 1);
                let real = d.datum_definitions().nth(idx).unwrap();
                let (rs, ra) = (real.details().size(), real.details().type_align());
                for (pn, p) in [("sizeup".to_string(), Perturb::Size(rs + 8)), ("alignup".to_string(), Perturb::Align(ra * 2))] {
                    let twin = std::panic::catch_unwind(|| build_with(&def, Some((n, o, p.clone()))));
                    if let Ok(t) = twin {
                        emit(&out, &format!("{}__{}_{}_pending{}", def.name, n, o, pn), &t,
                             json!({"twin": true, "pending_twin": true, "datum": idx, "perturbation": format!("pending{}", pn), "base": def.name}));
                    }
                }
                idx += 1;
                continue;
            }
            if let Step::Add(n, _) | Step::AddU(n, _) = st {
                let o = *occ.get(n).unwrap_or(&0);
                occ.insert(n, o + 1);
                let real = d.datum_definitions().nth(idx).unwrap();
                let (rs, ra, ru) = (real.details().size(), real.details().type_align(), real.details().allow_uninit());
                let mut ps: Vec<(String, Perturb)> = vec![("sizeup".into(), Perturb::Size(rs + ra.max(1)))];
                if rs > 0 {
                    ps.push(("sizedown".into(), Perturb::Size(rs / 2)));
                }
                ps.push(("alignup".into(), Perturb::Align(ra * 2)));
                if ra > 1 {
                    ps.push(("aligndown".into(), Perturb::Align(ra / 2)));
                }
                if !ru {
                    ps.push(("uninit".into(), Perturb::Uninit));
                }
                for (pn, p) in ps {
                    let twin = std::panic::catch_unwind(|| build_with(&def, Some((n, o, p.clone()))));
                    if let Ok(t) = twin {
                        emit(&out, &format!("{}__{}_{}_{}", def.name, n, o, pn), &t,
                             json!({"twin": true, "datum": idx, "perturbation": pn, "real_size": rs, "real_align": ra, "real_uninit_ok": ru,
                                    "base": def.name}));
                    }
                }
                idx += 1;
            }
        }
    }
}
