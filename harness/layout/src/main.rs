//! Native replay of layout scenarios (solver counterexamples of the mirsym engine) against the
//! real builder of /repo/truc, through its public API only.
//!
//! usage: layout_replay <scenario.json>
//! prints `FAIL: <property>: <what>` for every property the concrete run violates.
use std::collections::BTreeMap;
use std::panic::{catch_unwind, AssertUnwindSafe};

use serde_json::Value;
use truc::record::definition::builder::generic::{variant as gvariant, GenericRecordDefinitionBuilder};
use truc::record::definition::builder::native::{variant, DatumDefinitionOverride, NativeRecordDefinitionBuilder};
use truc::record::definition::{DatumId, NativeDatumDetails, RecordDefinition, RecordVariantId};
use truc::record::definition::convert::convert_record_definition;
use truc::record::definition::DatumDefinition;
use truc::record::type_resolver::{DynamicTypeInfo, HostTypeResolver, StaticTypeResolver, TypeInfo, TypeResolver};

use truc::generator::config::GeneratorConfig;
use truc::generator::fragment::{FragmentGenerator, FragmentGeneratorSpecs};

type B = NativeRecordDefinitionBuilder<HostTypeResolver>;

// Custom fragment generators of the GENEV scenarios (C19): each writes, as a comment of the generated
// module, which variant it was invoked for and the data lists it was handed, in the order it got them.
fn genev_line(who: &str, specs: &FragmentGeneratorSpecs) -> String {
    let ids = |v: &Vec<&DatumDefinition<NativeDatumDetails>>| v.iter().map(|d| format!("{}", d.id())).collect::<Vec<_>>().join(",");
    format!(
        "// {} variant {} data [{}] minus [{}] plus [{}]",
        who,
        specs.record.variant.id(),
        ids(&specs.record.data),
        ids(&specs.record.minus_data),
        ids(&specs.record.plus_data)
    )
}
struct VerifCustomA;
impl FragmentGenerator for VerifCustomA {
    fn generate(&self, specs: &FragmentGeneratorSpecs, scope: &mut codegen::Scope) {
        scope.raw(genev_line("VerifCustomA", specs));
    }
}
struct VerifCustomB;
impl FragmentGenerator for VerifCustomB {
    fn generate(&self, specs: &FragmentGeneratorSpecs, scope: &mut codegen::Scope) {
        scope.raw(genev_line("VerifCustomB", specs));
    }
}

fn add(b: &mut B, name: &str, size: u64, align: u64) -> Result<DatumId, String> {
    b.add_datum_override::<(), _>(
        name,
        DatumDefinitionOverride { type_name: Some("u8".to_string()), size: Some(size as usize), align: Some(align as usize), allow_uninit: None },
    )
}

fn close<R: TypeResolver>(b: &mut NativeRecordDefinitionBuilder<R>, strategy: &str) -> RecordVariantId {
    match strategy {
        "simple" => b.close_record_variant_with(variant::simple),
        "basic" => b.close_record_variant_with(variant::basic),
        "append_data" => b.close_record_variant_with(variant::append_data),
        "append_data_reverse" => b.close_record_variant_with(variant::append_data_reverse),
        other => panic!("unknown strategy {}", other),
    }
}

struct Obs {
    fails: Vec<String>,
    /// offset of every datum when it was first seen in a closed variant
    first_offsets: BTreeMap<DatumId, usize>,
}

impl Obs {
    fn fail(&mut self, s: String) {
        if !self.fails.contains(&s) {
            println!("FAIL: {}", s);
            self.fails.push(s);
        }
    }
    fn check_variant(&mut self, b: &B, v: RecordVariantId) {
        let ids: Vec<DatumId> = b[v].data().collect();
        let info: Vec<(DatumId, usize, usize, usize)> =
            ids.iter().map(|&d| (d, b[d].details().offset(), b[d].details().size(), b[d].details().type_align())).collect();
        println!("  variant {}: {}", v, info.iter().map(|(d, o, s, a)| format!("#{}@{}+{}/{}", d, o, s, a)).collect::<Vec<_>>().join(" "));
        for &(d, o, _s, a) in &info {
            if a == 0 || o % a != 0 {
                self.fail(format!("C02: datum {} is not aligned (offset {} align {}) in variant {}", d, o, a, v));
            }
            let first = *self.first_offsets.entry(d).or_insert(o);
            if first != o {
                self.fail(format!("C03: datum {} moved from {} to {}", d, first, o));
            }
        }
        for i in 0..info.len() {
            for j in (i + 1)..info.len() {
                let (dx, ox, sx, _) = info[i];
                let (dy, oy, sy, _) = info[j];
                if sx > 0 && sy > 0 {
                    if ox < oy + sy && oy < ox + sx {
                        self.fail(format!("C01: data {} [{}..{}) and {} [{}..{}) overlap in variant {}", dx, ox, ox + sx, dy, oy, oy + sy, v));
                    }
                    if ox + sx > oy {
                        self.fail(format!("C02: list order is not address order in variant {} ({} listed before {})", v, dx, dy));
                    }
                }
            }
        }
    }
    fn check_moves(&mut self, b: &B) {
        let known: Vec<(DatumId, usize)> = self.first_offsets.iter().map(|(d, o)| (*d, *o)).collect();
        for (d, o) in known {
            let now = b[d].details().offset();
            if now != o {
                self.fail(format!("C03: datum {} moved from {} to {}", d, o, now));
            }
        }
    }
    fn check_definition(&mut self, def: &RecordDefinition<NativeDatumDetails>) {
        let known: Vec<(DatumId, usize)> = self.first_offsets.iter().map(|(d, o)| (*d, *o)).collect();
        for (d, o) in known {
            match def.get_datum_definition(d) {
                Some(dd) if dd.id() == d => {
                    if dd.details().offset() != o {
                        self.fail(format!("C03: datum {} moved from {} to {} when the definition was built", d, o, dd.details().offset()));
                    }
                }
                _ => self.fail(format!("C03: after build() datum {} of a closed variant is not found under its identifier", d)),
            }
        }
        let ms = catch_unwind(AssertUnwindSafe(|| def.max_size()));
        let ma = catch_unwind(AssertUnwindSafe(|| def.max_type_align()));
        if ms.is_err() {
            self.fail("C13: computing the capacity panics".to_string());
        }
        if ma.is_err() {
            self.fail("C13: computing the record alignment panics".to_string());
        }
        if let (Ok(ms), Ok(ma)) = (ms, ma) {
            println!("  max_size {} max_type_align {}", ms, ma);
            for v in def.variants() {
                for d in v.data() {
                    let dd = &def[d];
                    if dd.details().offset() + dd.details().size() > ms {
                        self.fail(format!("C02: datum {} ends beyond the published capacity {}", d, ms));
                    }
                    if dd.details().type_align() == 0 || ma % dd.details().type_align() != 0 {
                        self.fail(format!("C02: record alignment {} is not a multiple of datum {} alignment", ma, d));
                    }
                    let first = self.first_offsets.get(&d).copied();
                    if let Some(f) = first {
                        if f != dd.details().offset() {
                            self.fail(format!("C03: datum {} moved from {} to {}", d, f, dd.details().offset()));
                        }
                    }
                }
            }
        }
        let text = catch_unwind(AssertUnwindSafe(|| format!("{}", def)));
        match text {
            Ok(_) => {}
            Err(_) => self.fail("C13: rendering the definition as text panics".to_string()),
        }
    }
}

/// C12 replay: the request list is applied to the real builder and the observations are compared
/// with those the reference model predicted (carried by the scenario).
trait Bld {
    fn add(&mut self, name: &str) -> Result<DatumId, String>;
    fn remove(&mut self, id: DatumId) -> Result<(), String>;
    fn close(&mut self, strategy: &str) -> RecordVariantId;
    fn current(&self) -> Vec<DatumId>;
    fn by_name(&self, name: &str) -> Option<DatumId>;
    fn variant(&self, i: usize) -> Option<Vec<DatumId>>;
}
impl Bld for GenericRecordDefinitionBuilder<()> {
    fn add(&mut self, name: &str) -> Result<DatumId, String> {
        self.add_datum(name, ())
    }
    fn remove(&mut self, id: DatumId) -> Result<(), String> {
        self.remove_datum(id)
    }
    fn close(&mut self, strategy: &str) -> RecordVariantId {
        if strategy == "append_data_reverse" {
            self.close_record_variant_with(gvariant::append_data_reverse)
        } else {
            self.close_record_variant_with(gvariant::append_data)
        }
    }
    fn current(&self) -> Vec<DatumId> {
        self.get_current_data().collect()
    }
    fn by_name(&self, name: &str) -> Option<DatumId> {
        self.get_current_datum_definition_by_name(name).map(|d| d.id())
    }
    fn variant(&self, i: usize) -> Option<Vec<DatumId>> {
        self.get_variant(RecordVariantId::from(i)).map(|v| v.data().collect())
    }
}
impl Bld for B {
    fn add(&mut self, name: &str) -> Result<DatumId, String> {
        add(self, name, 4, 4)
    }
    fn remove(&mut self, id: DatumId) -> Result<(), String> {
        self.remove_datum(id)
    }
    fn close(&mut self, strategy: &str) -> RecordVariantId {
        close(self, strategy)
    }
    fn current(&self) -> Vec<DatumId> {
        self.get_current_data().collect()
    }
    fn by_name(&self, name: &str) -> Option<DatumId> {
        self.get_current_datum_definition_by_name(name).map(|d| d.id())
    }
    fn variant(&self, i: usize) -> Option<Vec<DatumId>> {
        let mut n = 0;
        // the native builder exposes variants through Index only (panics when absent)
        let r = catch_unwind(AssertUnwindSafe(|| self[RecordVariantId::from(i)].data().collect::<Vec<_>>()));
        let _ = &mut n;
        r.ok()
    }
}

fn ids(v: &Value) -> Vec<usize> {
    v.as_array().map(|a| a.iter().filter_map(|x| x.as_u64()).map(|x| x as usize).collect()).unwrap_or_default()
}

fn replay_requests<T: Bld>(b: &mut T, sc: &Value, fails: &mut Vec<String>) {
    let mut fail = |s: String| {
        if !fails.contains(&s) {
            println!("FAIL: {}", s);
            fails.push(s);
        }
    };
    let strategy = sc["strategy"].as_str().unwrap_or("append_data").to_string();
    let reqs = sc["requests"].as_array().cloned().unwrap_or_default();
    let exps = sc["expected"].as_array().cloned().unwrap_or_default();
    for (i, (r, ex)) in reqs.iter().zip(exps.iter()).enumerate() {
        let got = match r["op"].as_str().unwrap_or("") {
            "add" => match b.add(r["name"].as_str().unwrap_or("a")) {
                Ok(id) => format!("ok:{}", id),
                Err(_) => "err".to_string(),
            },
            "remove" => match b.remove(DatumId::from(r["id"].as_u64().unwrap_or(0) as usize)) {
                Ok(()) => "ok".to_string(),
                Err(_) => "err".to_string(),
            },
            _ => format!("v:{}", b.close(&strategy)),
        };
        let want = ex["result"].as_str().unwrap_or("");
        println!("  step {}: {} -> {} (expected {})", i, r, got, want);
        if got != want {
            fail(format!("C12: request {} ({}) answered {}, the statement requires {}", i, r, got, want));
        }
        let mut cur: Vec<usize> = b.current().iter().map(|d| format!("{}", d).parse().unwrap()).collect();
        let mut want_cur = ids(&ex["current"]);
        if sc["builder"].as_str() != Some("generic") {
            cur.sort();
            want_cur.sort();
        }
        if cur != want_cur {
            fail(format!("C12: current data after request {} are {:?}, expected {:?}", i, cur, ids(&ex["current"])));
        }
        for n in ["a", "b", "c"] {
            let g = b.by_name(n).map(|d| format!("{}", d).parse::<i64>().unwrap()).unwrap_or(-1);
            let w = ex["by_name"][n].as_i64().unwrap_or(-1);
            if g != w {
                fail(format!("C12: lookup of name {} after request {} gives {}, expected {}", n, i, g, w));
            }
        }
        let mut nv = 0;
        let mut last: Vec<usize> = Vec::new();
        while let Some(v) = b.variant(nv) {
            last = v.iter().map(|d| format!("{}", d).parse().unwrap()).collect();
            nv += 1;
        }
        last.sort();
        if nv as u64 != ex["nvariants"].as_u64().unwrap_or(0) {
            fail(format!("C12: {} variants after request {}, expected {}", nv, i, ex["nvariants"]));
        }
        if last != ids(&ex["last"]) {
            fail(format!("C12: last closed variant after request {} is {:?}, expected {:?}", i, last, ids(&ex["last"])));
        }
    }
}

/// C18 replay: a resolver whose answers differ from the host's.
struct FakeResolver {
    name: std::cell::RefCell<String>,
    size: std::cell::Cell<usize>,
    align: std::cell::Cell<usize>,
    uninit: std::cell::Cell<bool>,
}
impl TypeResolver for FakeResolver {
    fn type_info<T>(&self) -> TypeInfo {
        TypeInfo { name: self.name.borrow().clone(), size: self.size.get(), align: self.align.get() }
    }
    fn dynamic_type_info(&self, _type_name: &str) -> DynamicTypeInfo {
        DynamicTypeInfo { info: self.type_info::<()>(), allow_uninit: self.uninit.get() }
    }
}

fn replay_resolver(sc: &Value) -> usize {
    let mut fails = 0;
    let res = FakeResolver { name: Default::default(), size: Default::default(), align: Default::default(), uninit: Default::default() };
    let mut b = NativeRecordDefinitionBuilder::new(&res);
    let mut expected: Vec<(String, usize, usize, bool)> = Vec::new();
    for (i, it) in sc["items"].as_array().cloned().unwrap_or_default().iter().enumerate() {
        let (rs, ra) = (u(it, "rs") as usize, u(it, "ra").max(1) as usize);
        *res.name.borrow_mut() = format!("R{}", i);
        res.size.set(rs);
        res.align.set(ra);
        let un = it["uninit"].as_bool().unwrap_or(false);
        res.uninit.set(un);
        let name = format!("f{}", i);
        // T = [u64; 5]: the host's own answer would be 40 / 8, never what the fake resolver says
        let r = match it["entry"].as_str().unwrap_or("") {
            "add_datum" => {
                expected.push((format!("R{}", i), rs, ra, false));
                b.add_datum::<[u64; 5], _>(name)
            }
            "add_datum_allow_uninit" => {
                expected.push((format!("R{}", i), rs, ra, true));
                b.add_datum_allow_uninit::<[u64; 5], _>(name)
            }
            "add_datum_override" => {
                let on = it["ov_name"].as_bool().unwrap_or(false);
                let os = it["ov_size"].as_bool().unwrap_or(false);
                let oa = it["ov_align"].as_bool().unwrap_or(false);
                let ou = u(it, "ov_uninit");
                expected.push((
                    if on { format!("O{}", i) } else { format!("R{}", i) },
                    if os { u(it, "os") as usize } else { rs },
                    if oa { u(it, "oa").max(1) as usize } else { ra },
                    ou == 2,
                ));
                b.add_datum_override::<[u64; 5], _>(
                    name,
                    DatumDefinitionOverride {
                        type_name: if on { Some(format!("O{}", i)) } else { None },
                        size: if os { Some(u(it, "os") as usize) } else { None },
                        align: if oa { Some(u(it, "oa").max(1) as usize) } else { None },
                        allow_uninit: if ou == 0 { None } else { Some(ou == 2) },
                    },
                )
            }
            "add_dynamic_datum" => {
                expected.push((format!("R{}", i), rs, ra, un));
                b.add_dynamic_datum(name, "dyn")
            }
            _ => {
                expected.push((format!("R{}", i), rs, ra, un));
                let proto = DatumDefinition::new(
                    DatumId::from(99),
                    name,
                    NativeDatumDetails::new(17, TypeInfo { name: format!("R{}", i), size: rs, align: ra }, un),
                );
                b.copy_datum(&proto)
            }
        };
        if r.is_err() {
            println!("FAIL: C18: entry point {} rejected a fresh datum", it["entry"]);
            fails += 1;
        }
    }
    close(&mut b, sc["strategy"].as_str().unwrap_or("simple"));
    for (i, ex) in expected.iter().enumerate() {
        let d = &b[DatumId::from(i)];
        let ti = d.details().type_info();
        println!("  datum {}: stored {} {}/{} uninit {} offset {}", i, ti.name, ti.size, ti.align, d.details().allow_uninit(), d.details().offset());
        if ti.name != ex.0 || ti.size != ex.1 || ti.align != ex.2 {
            println!("FAIL: C18: stored type information of datum {} is {} {}/{}, the resolver / override said {} {}/{}", i, ti.name, ti.size, ti.align, ex.0, ex.1, ex.2);
            fails += 1;
        }
        if d.details().allow_uninit() != ex.3 {
            println!("FAIL: C18: stored may-be-uninitialised flag of datum {} is wrong", i);
            fails += 1;
        }
        if ex.2 > 0 && d.details().offset() % ex.2 != 0 {
            println!("FAIL: C18: offset of datum {} does not follow the resolver's alignment", i);
            fails += 1;
        }
    }
    fails
}

/// C18 (type tables) replay: concrete types whose size differs from their alignment stand for the tags.
fn replay_table(sc: &Value) -> usize {
    let mut fails = 0;
    let mut fail = |s: String| {
        println!("FAIL: {}", s);
        fails += 1;
    };
    let mut table = StaticTypeResolver::new();
    let regs = sc["regs"].as_array().cloned().unwrap_or_default();
    for r in &regs {
        let un = r["uninit"].as_bool().unwrap_or(false);
        let ok = catch_unwind(AssertUnwindSafe(|| match (r["tag"].as_str().unwrap_or("A"), un) {
            ("A", false) => table.add_type::<[u16; 3]>(),
            ("A", true) => table.add_type_allow_uninit::<[u16; 3]>(),
            ("B", false) => table.add_type::<[u8; 5]>(),
            ("B", true) => table.add_type_allow_uninit::<[u8; 5]>(),
            (_, false) => table.add_type::<[u32; 3]>(),
            (_, true) => table.add_type_allow_uninit::<[u32; 3]>(),
        }));
        if ok.is_err() {
            fail("C18: registering a new type in a type table panics".to_string());
        }
    }
    macro_rules! lookups {
        ($t:ty, $un:expr) => {{
            let host = HostTypeResolver.type_info::<$t>();
            match catch_unwind(AssertUnwindSafe(|| table.type_info::<$t>())) {
                Ok(ti) => {
                    println!("  table {:?} host {:?}", ti, host);
                    if ti != host {
                        fail(format!("C18: a type table disagrees with the host resolver on the platform where it was produced ({}: {}/{} vs {}/{})", host.name, ti.size, ti.align, host.size, host.align));
                    }
                    match catch_unwind(AssertUnwindSafe(|| table.dynamic_type_info(&host.name))) {
                        Ok(dy) => {
                            if dy.info != ti {
                                fail("C18: dynamic and typed lookups of a type table disagree".to_string());
                            }
                            if dy.allow_uninit != $un {
                                fail("C18: a type table answers a wrong may-be-uninitialised flag".to_string());
                            }
                        }
                        Err(_) => fail("C18: a type table does not answer a dynamic lookup for a registered type".to_string()),
                    }
                }
                Err(_) => fail("C18: a type table does not answer for a type that was registered".to_string()),
            }
        }};
    }
    for r in &regs {
        let un = r["uninit"].as_bool().unwrap_or(false);
        match r["tag"].as_str().unwrap_or("A") {
            "A" => lookups!([u16; 3], un),
            "B" => lookups!([u8; 5], un),
            _ => lookups!([u32; 3], un),
        }
    }
    if catch_unwind(AssertUnwindSafe(|| table.type_info::<[u64; 7]>())).is_ok() {
        fail("C18: a type table answers a typed lookup for a type that was never registered".to_string());
    }
    if catch_unwind(AssertUnwindSafe(|| table.dynamic_type_info("[u64; 7]"))).is_ok() {
        fail("C18: a type table answers a dynamic lookup for a type that was never registered".to_string());
    }
    if sc["dup"].as_bool().unwrap_or(false) {
        let first_un = regs.first().map(|r| r["tag"].as_str().unwrap_or("A").to_string()).unwrap_or_default();
        let twice = catch_unwind(AssertUnwindSafe(|| match first_un.as_str() {
            "A" => table.add_type::<[u16; 3]>(),
            "B" => table.add_type::<[u8; 5]>(),
            _ => table.add_type::<[u32; 3]>(),
        }));
        if twice.is_ok() {
            fail("C18: registering a type twice in a type table is accepted".to_string());
        }
        let twice = catch_unwind(AssertUnwindSafe(|| match first_un.as_str() {
            "A" => table.add_type_allow_uninit::<[u16; 3]>(),
            "B" => table.add_type_allow_uninit::<[u8; 5]>(),
            _ => table.add_type_allow_uninit::<[u32; 3]>(),
        }));
        if twice.is_ok() {
            fail("C18: registering a type twice in a type table is accepted".to_string());
        }
        // the refused registrations must have left the table as it was
        macro_rules! again {
            ($t:ty, $un:expr) => {{
                let host = HostTypeResolver.type_info::<$t>();
                let ti = catch_unwind(AssertUnwindSafe(|| table.type_info::<$t>()));
                let dy = catch_unwind(AssertUnwindSafe(|| table.dynamic_type_info(&host.name)));
                match (ti, dy) {
                    (Ok(ti), Ok(dy)) => {
                        if ti != host || dy.info != ti || dy.allow_uninit != $un {
                            fail(format!("C18: a type table answers differently after a refused second registration ({})", host.name));
                        }
                    }
                    _ => fail("C18: a type table does not answer for a registered type after a refused second registration".to_string()),
                }
            }};
        }
        for r in &regs {
            let un = r["uninit"].as_bool().unwrap_or(false);
            match r["tag"].as_str().unwrap_or("A") {
                "A" => again!([u16; 3], un),
                "B" => again!([u8; 5], un),
                _ => again!([u32; 3], un),
            }
        }
    }
    fails
}

/// C20 replay.
fn replay_conv(sc: &Value) -> usize {
    let mut fails = 0;
    let shapes = [(4u64, 4u64), (0, 1), (3, 1), (16, 16), (12, 4), (1, 1)];
    let mut src = NativeRecordDefinitionBuilder::new(HostTypeResolver);
    let mut n = 0usize;
    for st in sc["steps"].as_array().cloned().unwrap_or_default() {
        for r in st["rm"].as_array().cloned().unwrap_or_default() {
            let _ = src.remove_datum(DatumId::from(r.as_u64().unwrap() as usize));
        }
        for a in st["add"].as_array().cloned().unwrap_or_default() {
            let (s, al) = shapes[n % 6];
            let reuse = a["reuse"].as_bool().unwrap_or(false) && n > 0;
            let nm = if reuse { "f0".to_string() } else { format!("f{}", n) };
            let id = match add(&mut src, &nm, s, al) {
                Ok(id) => id,
                Err(_) => add(&mut src, &format!("f{}", n), s, al).expect("source add"),
            };
            if a["undo"].as_bool().unwrap_or(false) {
                let _ = src.remove_datum(id);
            }
            n += 1;
        }
        close(&mut src, st["strategy"].as_str().unwrap_or("simple"));
    }
    let sdef = src.build();
    println!("source:\n{}", sdef);
    let target = sc["target"].as_str().unwrap_or("simple").to_string();
    let mapping: std::cell::RefCell<BTreeMap<DatumId, Vec<DatumId>>> = Default::default();
    let (res, tvariants, tdata): (Result<BTreeMap<RecordVariantId, RecordVariantId>, String>, Vec<Vec<DatumId>>, BTreeMap<DatumId, (String, TypeInfo, bool)>);
    if target == "generic" {
        let mut tb = GenericRecordDefinitionBuilder::<NativeDatumDetails>::new();
        res = convert_record_definition(
            &sdef,
            |t: &mut GenericRecordDefinitionBuilder<NativeDatumDetails>, d: &DatumDefinition<NativeDatumDetails>| {
                let r = t.add_datum(d.name(), NativeDatumDetails::new(usize::MAX, d.details().type_info().clone(), d.details().allow_uninit()));
                if let Ok(id) = &r {
                    mapping.borrow_mut().entry(d.id()).or_default().push(*id);
                }
                r
            },
            |t, id| t.remove_datum(id),
            |t| t.close_record_variant_with(gvariant::append_data),
            &mut tb,
        );
        let def = tb.build();
        tvariants = def.variants().map(|v| v.data().collect()).collect();
        tdata = def.datum_definitions().map(|d| (d.id(), (d.name().to_string(), d.details().type_info().clone(), d.details().allow_uninit()))).collect();
    } else {
        let mut tb = NativeRecordDefinitionBuilder::new(HostTypeResolver);
        let strat = target.clone();
        res = convert_record_definition(
            &sdef,
            |t: &mut B, d: &DatumDefinition<NativeDatumDetails>| {
                let r = t.copy_datum(d);
                if let Ok(id) = &r {
                    mapping.borrow_mut().entry(d.id()).or_default().push(*id);
                }
                r
            },
            |t, id| t.remove_datum(id),
            |t| close(t, &strat),
            &mut tb,
        );
        let def = tb.build();
        tvariants = def.variants().map(|v| v.data().collect()).collect();
        tdata = def.datum_definitions().map(|d| (d.id(), (d.name().to_string(), d.details().type_info().clone(), d.details().allow_uninit()))).collect();
    }
    let mut fail = |s: String| {
        println!("FAIL: {}", s);
        fails += 1;
    };
    let map = match res {
        Ok(m) => m,
        Err(e) => {
            fail(format!("C20: replaying an accepted definition into a fresh builder failed: {}", e));
            return fails;
        }
    };
    let svars: Vec<_> = sdef.variants().collect();
    if map.len() != svars.len() || tvariants.len() != svars.len() {
        fail(format!("C20: {} source variants, {} map entries, {} target variants", svars.len(), map.len(), tvariants.len()));
    }
    let mapping = mapping.borrow();
    for (sid, tids) in mapping.iter() {
        if tids.len() != 1 {
            fail(format!("C20: source datum {} was added {} times to the target", sid, tids.len()));
        }
    }
    for sv in &svars {
        let tv = match map.get(&sv.id()) {
            Some(t) => *t,
            None => {
                fail(format!("C20: source variant {} is missing from the returned map", sv.id()));
                continue;
            }
        };
        let tvi: usize = format!("{}", tv).parse().unwrap();
        if tvi >= tvariants.len() {
            fail("C20: map points to a target variant that does not exist".to_string());
            continue;
        }
        let mut want: Vec<DatumId> = sv.data().filter_map(|d| mapping.get(&d).map(|v| v[0])).collect();
        want.sort();
        let mut got = tvariants[tvi].clone();
        got.sort();
        if want != got || want.len() != sv.data_len() {
            fail(format!("C20: target variant {} does not hold exactly the images of the data of source variant {}", tv, sv.id()));
        }
        for d in sv.data() {
            if let Some(t) = mapping.get(&d).map(|v| v[0]) {
                let sd = &sdef[d];
                if let Some((tn, tti, tun)) = tdata.get(&t) {
                    if tn != sd.name() {
                        fail(format!("C20: name of datum {} changed in the replay", d));
                    }
                    if tti != sd.details().type_info() {
                        fail(format!("C20: type information of datum {} changed in the replay", d));
                    }
                    if *tun != sd.details().allow_uninit() {
                        fail(format!("C20: may-be-uninitialised flag of datum {} changed in the replay", d));
                    }
                }
            }
        }
    }
    fails
}

fn u(v: &Value, k: &str) -> u64 {
    v.get(k).and_then(|x| x.as_u64()).unwrap_or(0)
}

fn main() {
    let path = std::env::args().nth(1).expect("scenario file");
    let text = std::fs::read_to_string(&path).expect("read scenario");
    let sc: Value = serde_json::from_str(&text).expect("json");
    std::panic::set_hook(Box::new(|_| {}));
    let mut obs = Obs { fails: Vec::new(), first_offsets: BTreeMap::new() };
    let mut b = NativeRecordDefinitionBuilder::new(HostTypeResolver);
    let kind = sc.get("kind").and_then(|k| k.as_str()).unwrap_or("hist");
    if kind == "resolver" || kind == "conv" || kind == "table" {
        let r = catch_unwind(AssertUnwindSafe(|| if kind == "conv" { replay_conv(&sc) } else if kind == "table" { replay_table(&sc) } else { replay_resolver(&sc) }));
        let n = match r {
            Ok(n) => n,
            Err(_) => {
                println!("FAIL: {}: the code under test panicked while replaying the scenario", if kind == "conv" { "C20" } else { "C18" });
                1
            }
        };
        println!("REPLAY-DONE fails={}", n);
        return;
    }
    if kind == "req" {
        let mut fails = Vec::new();
        let build_ok = if sc["builder"].as_str() == Some("generic") {
            let mut gb = GenericRecordDefinitionBuilder::<()>::new();
            replay_requests(&mut gb, &sc, &mut fails);
            catch_unwind(AssertUnwindSafe(|| gb.build())).is_ok()
        } else {
            replay_requests(&mut b, &sc, &mut fails);
            catch_unwind(AssertUnwindSafe(|| b.build())).is_ok()
        };
        if build_ok != sc["build_ok"].as_bool().unwrap_or(true) {
            println!("FAIL: C12: build() with{} unclosed changes was {}", if build_ok { "" } else { "out" }, if build_ok { "accepted" } else { "rejected" });
            fails.push("build".into());
        }
        println!("REPLAY-DONE fails={}", fails.len());
        return;
    }
    let r = catch_unwind(AssertUnwindSafe(|| {
        if kind == "step" {
            // pre-state reached with shipped strategies only: fillers (align 1) make every datum land
            // on its offset under append_data, then fillers and stale data are removed.
            let pre = sc["pre"].as_array().cloned().unwrap_or_default();
            let stale: Vec<u64> = sc["stale"].as_array().map(|a| a.iter().filter_map(|x| x.as_u64()).collect()).unwrap_or_default();
            let rm: Vec<u64> = sc["rm"].as_array().map(|a| a.iter().filter_map(|x| x.as_u64()).collect()).unwrap_or_default();
            let pending_first = sc["pending_first"].as_bool().unwrap_or(false);
            if pending_first {
                for (j, p) in sc["pending"].as_array().cloned().unwrap_or_default().iter().enumerate() {
                    let id = add(&mut b, &format!("q{}", j), u(p, "s"), u(p, "a").max(1)).expect("pending");
                    b.remove_datum(id).expect("remove pending");
                }
            }
            let mut end = 0u64;
            let mut fillers = Vec::new();
            let mut ids = Vec::new();
            for (i, p) in pre.iter().enumerate() {
                let (o, s, a) = (u(p, "o"), u(p, "s"), u(p, "a").max(1));
                if o > end {
                    fillers.push(add(&mut b, &format!("filler{}", i), o - end, 1).expect("filler"));
                }
                ids.push(add(&mut b, &format!("p{}", i), s, a).expect("pre datum"));
                end = o + s;
            }
            let v0 = close(&mut b, "append_data");
            let mut exact = true;
            for (i, p) in pre.iter().enumerate() {
                if b[ids[i]].details().offset() as u64 != u(p, "o") {
                    exact = false;
                }
            }
            if !exact {
                println!("NOTE: pre-state could not be reached with append_data + fillers on this tree");
                println!("PRESTATE-MISMATCH");
            }
            let _ = v0;
            if !fillers.is_empty() || !stale.is_empty() {
                for f in &fillers {
                    b.remove_datum(*f).expect("remove filler");
                }
                for s in &stale {
                    b.remove_datum(ids[*s as usize]).expect("remove stale");
                }
                close(&mut b, "append_data");
            }
            if !pending_first {
                for (j, p) in sc["pending"].as_array().cloned().unwrap_or_default().iter().enumerate() {
                    let id = add(&mut b, &format!("q{}", j), u(p, "s"), u(p, "a").max(1)).expect("pending");
                    b.remove_datum(id).expect("remove pending");
                }
            }
            // observation starts from the pre-state
            for (i, _) in pre.iter().enumerate() {
                obs.first_offsets.insert(ids[i], b[ids[i]].details().offset());
            }
            println!("pre-state:");
            for (i, _) in pre.iter().enumerate() {
                println!("  p{} #{} @{}+{}/{}", i, ids[i], b[ids[i]].details().offset(), b[ids[i]].details().size(), b[ids[i]].details().type_align());
            }
            let mut by_name: BTreeMap<String, DatumId> = BTreeMap::new();
            for (i, _) in pre.iter().enumerate() {
                by_name.insert(format!("p{}", i), ids[i]);
            }
            for r in &rm {
                b.remove_datum(ids[*r as usize]).expect("remove");
            }
            if let Some(cn) = sc["clash"].as_str() {
                if add(&mut b, cn, 4, 4).is_ok() {
                    obs.fail("C12: adding a name that already exists in the current variant was accepted".to_string());
                }
            }
            for (j, p) in sc["new"].as_array().cloned().unwrap_or_default().iter().enumerate() {
                let id = add(&mut b, &format!("n{}", j), u(p, "s"), u(p, "a").max(1)).expect("new datum");
                by_name.insert(format!("n{}", j), id);
            }
            let strategy = sc["strategy"].as_str().unwrap_or("simple").to_string();
            let v = close(&mut b, &strategy);
            println!("step:");
            obs.check_variant(&b, v);
            obs.check_moves(&b);
            for (si, th) in sc["then"].as_array().cloned().unwrap_or_default().iter().enumerate() {
                for r in th["rm_names"].as_array().cloned().unwrap_or_default() {
                    if let Some(id) = r.as_str().and_then(|n| by_name.get(n)) {
                        b.remove_datum(*id).expect("remove (then)");
                    }
                }
                for (j, p) in th["add"].as_array().cloned().unwrap_or_default().iter().enumerate() {
                    let nm = format!("t{}_{}", si, j);
                    let id = add(&mut b, &nm, u(p, "s"), u(p, "a").max(1)).expect("then datum");
                    by_name.insert(nm, id);
                }
                let v = close(&mut b, th["strategy"].as_str().unwrap_or("simple"));
                println!("then #{}:", si);
                obs.check_variant(&b, v);
                obs.check_moves(&b);
            }
        } else {
            let mut n = 0;
            for (vi, st) in sc["steps"].as_array().cloned().unwrap_or_default().iter().enumerate() {
                for r in st["rm"].as_array().cloned().unwrap_or_default() {
                    let id = DatumId::from(r.as_u64().unwrap() as usize);
                    if let Err(e) = b.remove_datum(id) {
                        obs.fail(format!("C12: removal of a live datum was rejected: {}", e));
                    }
                }
                for a in st["add"].as_array().cloned().unwrap_or_default() {
                    let id = add(&mut b, &format!("f{}", n), u(&a, "s"), u(&a, "a").max(1)).expect("add");
                    n += 1;
                    if a.get("undo").and_then(|x| x.as_bool()).unwrap_or(false) {
                        b.remove_datum(id).expect("undo");
                    }
                }
                let v = close(&mut b, st["strategy"].as_str().unwrap_or("simple"));
                println!("close #{}:", vi);
                obs.check_variant(&b, v);
                obs.check_moves(&b);
            }
        }
    }));
    if r.is_err() {
        obs.fail("C13: the builder / strategy panicked while replaying the scenario".to_string());
    }
    let built = catch_unwind(AssertUnwindSafe(|| b.build()));
    match built {
        Ok(def) => {
            obs.check_definition(&def);
            if sc.get("generate").and_then(|g| g.as_bool()).unwrap_or(false) {
                let text = catch_unwind(AssertUnwindSafe(|| {
                    let custom: Vec<Box<dyn FragmentGenerator>> = vec![Box::new(VerifCustomA), Box::new(VerifCustomB)];
                    truc::generator::generate(&def, &GeneratorConfig::default_with_custom_generators(custom))
                }));
                match text {
                    Ok(text) => {
                        println!("generated code ({} bytes):\n{}", text.len(), text);
                        // C19 "generated twice in one process": process-global state must not change the text
                        let again = catch_unwind(AssertUnwindSafe(|| {
                            let custom: Vec<Box<dyn FragmentGenerator>> = vec![Box::new(VerifCustomA), Box::new(VerifCustomB)];
                            truc::generator::generate(&def, &GeneratorConfig::default_with_custom_generators(custom))
                        }));
                        match again {
                            Ok(t2) if t2 == text => println!("second generation in this process: identical"),
                            Ok(t2) => println!("C19-SECOND-GENERATION-DIFFERS ({} bytes vs {} bytes):\n{}", text.len(), t2.len(), t2),
                            Err(_) => println!("C19-SECOND-GENERATION-DIFFERS (panicked)"),
                        }
                    }
                    Err(_) => obs.fail("C13: generate() panicked".to_string()),
                }
            }
        }
        Err(_) => obs.fail("C13: build() panicked".to_string()),
    }
    println!("REPLAY-DONE fails={}", obs.fails.len());
}
