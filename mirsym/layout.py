"""Layout drivers over the real builder / strategy MIR: STEP (one close from an arbitrary state
satisfying the representation invariant) and HIST (histories from the empty builder).

A *task* is a dict describing the concrete shape of one exploration (strategy, K, M, which
pre-state data are stale / removed, alignments of the new data, ...); everything numeric inside
it (offsets, sizes, alignments of the pre-state) is symbolic."""
import itertools
import time

import z3

import mirparse as mp
from engine import (Agg, Engine, FnVal, Infeasible, Panic, Ref, Unsupported, VecV, Violation, none)

ENUMS = {'FittedDatumKind': {'StartOfGap': 0, 'EndOfGap': 1}}
STRATS = {'simple': 'simple', 'basic': 'basic', 'append_data': 'append_data#native',
          'append_data_reverse': 'append_data_reverse#native'}
GB = 'GenericRecordDefinitionBuilder::<D>::'
USIZE_MAX = 2 ** 64 - 1

ALIGNS = [1, 2, 4, 8, 16]
SMAX = 24
OMAX = 256


def did(n):
    return Agg('DatumId', None, [n])


def details(off, size, align, name='t'):
    ti = Agg('TypeInfo', None, [name, size, align])
    return Agg('NativeDatumDetails', None, [off, ti, False])


def identity_strategy(e, args, callee):
    """Custom strategy used only to *construct* pre-states: drops removals, appends additions,
    leaves every offset as supplied."""
    data, add, rm, _defs = args
    rmids = [x.fields[0] for x in rm.items]
    out = [x for x in data.items if x.fields[0] not in rmids] + list(add.items)
    return VecV(out)


class Layout:
    """Accessors on engine values (positions validated against the real accessor MIR at start-up)."""

    @staticmethod
    def defs_of(builder):
        return builder.fields[0].fields[0].items

    @staticmethod
    def variants_of(builder):
        return builder.fields[1].items

    @staticmethod
    def info(d):
        det = d.fields[2]
        return det.fields[0], det.fields[1].fields[1], det.fields[1].fields[2]


def validate_positions(e):
    """The drivers build NativeDatumDetails / TypeInfo / DatumDefinition values positionally; check
    the positions against the real accessor functions of the current tree."""
    d = details(11, 22, 33)
    cell = [d]
    r = Ref(cell, 0)
    ok = (e.call('NativeDatumDetails::offset', [r]) == 11 and e.call('NativeDatumDetails::size', [r]) == 22
          and e.call('NativeDatumDetails::type_align', [r]) == 33)
    if not ok:
        raise Unsupported('field positions of NativeDatumDetails/TypeInfo differ from what the driver assumes')
    dd = e.call('DatumDefinition::<D>::new', [did(7), 'nm', d])
    c2 = [dd]
    if e.call('DatumDefinition::<D>::id', [Ref(c2, 0)]).fields[0] != 7:
        raise Unsupported('field positions of DatumDefinition differ from what the driver assumes')
    det = e.call('DatumDefinition::<D>::details', [Ref(c2, 0)])
    if Layout.info(dd) != (11, 22, 33):
        raise Unsupported('DatumDefinition layout differs')


NB = 'NativeRecordDefinitionBuilder::<R>::'


def resolver_type_info(e, args, callee):
    """Driver-side TypeResolver: answers what the driver queued (symbolic sizes / alignments)."""
    e.resolver_calls = getattr(e, 'resolver_calls', 0) + 1
    name, size, align = e.resolver_next
    return Agg('TypeInfo', None, [name, size, align])


def resolver_dynamic_type_info(e, args, callee):
    e.resolver_calls = getattr(e, 'resolver_calls', 0) + 1
    name, size, align = e.resolver_next
    return Agg('DynamicTypeInfo', None, [Agg('TypeInfo', None, [name, size, align]), e.resolver_next_uninit])


def new_engine(funcs):
    e = Engine(funcs, ENUMS)
    e.builtins['__identity_strategy'] = identity_strategy
    def dispatch(e_, callee, args):
        # trait dispatch on the run-time value: the driver's resolver answers itself; anything else
        # (e.g. the forwarding impl for &R) runs its MIR
        v = args[0]
        while isinstance(v, Ref):
            nxt = v.get()
            if isinstance(nxt, Agg) and nxt.name == 'DriverResolver':
                v = nxt
                break
            v = nxt
        if isinstance(v, Agg) and v.name == 'DriverResolver' and isinstance(args[0], Ref) and isinstance(args[0].get(), Agg):
            if '::dynamic_type_info' in callee:
                return resolver_dynamic_type_info(e_, args, callee)
            if '::type_info' in callee:
                return resolver_type_info(e_, args, callee)
        return NotImplemented
    e.dispatch_hooks.append((' as TypeResolver>::', dispatch))
    e.resolver_next = ('host', 1, 1)
    e.resolver_next_uninit = False
    return e


class Native:
    """The real NativeRecordDefinitionBuilder driven through its MIR, wrapped around a generic
    builder value (which may have been prepared with an arbitrary pre-state)."""

    def __init__(self, e, inner=None):
        self.e = e
        nb = e.call(NB + 'new', [Agg('DriverResolver', None, [])])
        idx = [i for i, f in enumerate(nb.fields) if isinstance(f, Agg) and f.name == 'GenericRecordDefinitionBuilder']
        if len(idx) != 1:
            raise Unsupported('NativeRecordDefinitionBuilder does not wrap exactly one generic builder')
        self.idx = idx[0]
        if inner is not None:
            nb.fields[self.idx] = inner
        self.cell = [nb]
        self.ref = Ref(self.cell, 0)

    @property
    def inner(self):
        return self.cell[0].fields[self.idx]

    def add(self, name, size, align, host=(1, 1), uninit=None, tname='t'):
        """add_datum_override with explicit size/alignment (resolver answers `host`)."""
        self.e.resolver_next = ('host', host[0], host[1])
        ov = Agg('DatumDefinitionOverride', None, [some_(tname), some_(size), some_(align), none() if uninit is None else some_(uninit)])
        return self.e.call(NB + 'add_datum_override', [self.ref, name, ov])

    def remove(self, n):
        return self.e.call(NB + 'remove_datum', [self.ref, did(n)])

    def close(self, strategy):
        return self.e.call(NB + 'close_record_variant_with', [self.ref, FnVal(STRATS[strategy])])


def some_(v):
    return Agg('Option', 1, [v])


# ------------------------------------------------------------------------------------------ STEP
def step_tasks(strategy, K, M, S=0, P=0, aligns=ALIGNS, split_new_aligns=True):
    """Enumerate the concrete shapes of STEP for one strategy and size."""
    tasks = []
    n = K + S
    for stale in itertools.combinations(range(n), S):
        live = [i for i in range(n) if i not in stale]
        for rm_bits in range(2 ** K):
            rm = [live[i] for i in range(K) if rm_bits >> i & 1]
            na_list = itertools.product(aligns, repeat=M) if split_new_aligns else [None]
            for na in na_list:
                tasks.append(dict(kind='step', strategy=strategy, K=K, M=M, S=S, P=P, stale=list(stale), rm=rm,
                                  new_aligns=list(na) if na else None))
    return tasks


def sym_prestate(e, n, aligns, smax, omax, zst=True):
    """n data sorted by address satisfying INV (strong): aligned, each starts at or after the end
    of the previous one (zero-size data included in the order)."""
    pre = []
    prev_end = 0
    for i in range(n):
        a = e.fresh_int('a%d' % i, 1, max(aligns))
        s = e.fresh_int('s%d' % i, 0 if zst else 1, smax)
        o = e.fresh_int('o%d' % i, 0, omax)
        e.assume(z3.Or(*[z3.And(a == al, o % al == 0) for al in aligns]))
        e.assume(o >= prev_end)
        prev_end = o + s
        pre.append((o, s, a))
    return pre


def run_step(e, t, opts):
    """One STEP exploration path (called by Engine.explore for every path)."""
    aligns = opts.get('aligns', ALIGNS)
    smax = opts.get('smax', SMAX)
    omax = opts.get('omax', OMAX)
    zst = opts.get('zst', True)
    K, M, S, P = t['K'], t['M'], t['S'], t['P']
    n = K + S
    # continuation mode: the first step is replayed with the concrete values of a solver model
    e.fixed_values = t.get('fixed')
    b = e.call(GB + 'new', [])
    cell = [b]
    bref = Ref(cell, 0)
    pre = sym_prestate(e, n, aligns, smax, omax, zst)
    ids = []
    for i, (o, s, a) in enumerate(pre):
        r = e.call(GB + 'add_datum', [bref, 'p%d' % i, details(o, s, a)])
        if r.variant != 0:
            raise Unsupported('pre-state construction: add_datum failed')
        ids.append(r.fields[0].fields[0])
    e.call(GB + 'close_record_variant_with', [bref, FnVal('__identity_strategy')])
    if t['stale']:
        for i in t['stale']:
            r = e.call(GB + 'remove_datum', [bref, did(ids[i])])
            if r.variant != 0:
                raise Unsupported('pre-state construction: remove_datum failed')
        e.call(GB + 'close_record_variant_with', [bref, FnVal('__identity_strategy')])
    # data added and removed again before a close: stay in the collection with the sentinel offset
    pend = []
    for j in range(P):
        a = e.choose(e.fresh_int('pa%d' % j, 1, max(aligns)), aligns)
        s = e.fresh_int('ps%d' % j, 0, smax)
        r = e.call(GB + 'add_datum', [bref, 'q%d' % j, details(USIZE_MAX, s, a)])
        pid = r.fields[0].fields[0]
        e.call(GB + 'remove_datum', [bref, did(pid)])
        pend.append(pid)
    before = {d.fields[0].fields[0]: Layout.info(d) for d in Layout.defs_of(cell[0]) if d.fields[0].fields[0] in ids}
    nvar_before = len(Layout.variants_of(cell[0]))
    # ---- the step: removals, additions, close with the real strategy — through the native builder
    nat = Native(e, cell[0])
    for i in t['rm']:
        r = nat.remove(ids[i])
        e.verify(r.variant == 0, 'C12: removal of a live datum was rejected')
    new = []
    soft = []
    # an addition whose name clashes with a live carried-over datum must be refused (and must not make the
    # strategy re-place that datum)
    clash = [i for i in range(n) if i not in t['stale'] and i not in t['rm']]
    if clash and opts.get('clash', True) and not t.get('fixed'):
        r = nat.add('p%d' % clash[0], 4, 4)
        if r.variant != 1:
            # keep going: what the accepted addition does to the carried-over datum at the close is C03's business
            soft.append('C12: adding a name that already exists in the current variant was accepted')
    for j in range(M):
        if t.get('new_aligns'):
            a = t['new_aligns'][j]
        else:
            a = e.choose(e.fresh_int('na%d' % j, 1, max(aligns)), aligns)
        s = e.fresh_int('ns%d' % j, 0 if zst else 1, smax)
        r = nat.add('n%d' % j, s, a)
        e.verify(r.variant == 0, 'C12: addition with a fresh name was rejected')
        new.append(r.fields[0].fields[0])
    nat.close(t['strategy'])
    if not t.get('then'):
        check_after_close(e, nat.inner, before, ids, t, new, nvar_before, opts)
    if soft:
        try:
            e.flush_checks()
        except Violation as v:
            raise Violation('; '.join(soft + [v.msg]), v.model)
        e.check()
        raise Violation('; '.join(soft), e.model_dict())
    # ---- continuation: further closes from the state just reached (symbolic again)
    e.fixed_values = None
    for si, th in enumerate(t.get('then') or []):
        variants = Layout.variants_of(nat.inner)
        cur = [x.fields[0] for x in variants[-1].fields[1].items]
        snap = {d.fields[0].fields[0]: Layout.info(d) for d in Layout.defs_of(nat.inner)}
        removed = []
        for d in cur:
            if e.branch(z3.Bool('t%d_rm_%d' % (si, d))):
                nat.remove(d)
                removed.append(d)
        new2 = []
        for j in range(th['M']):
            a = e.choose(e.fresh_int('t%d_a%d' % (si, j), 1, max(aligns)), aligns)
            s2 = e.fresh_int('t%d_s%d' % (si, j), 0, smax)
            r = nat.add('t%d_%d' % (si, j), s2, a)
            new2.append(r.fields[0].fields[0])
        nvb = len(variants)
        nat.close(th['strategy'])
        fake_t = dict(stale=[], rm=[cur.index(d) for d in removed])
        check_after_close(e, nat.inner, snap, cur, fake_t, new2, nvb, dict(opts, check_inv=False))
    record_env_path(e, nat.inner)
    if not opts.get('env_pairs'):
        check_env(e)
    if opts.get('final', True):
        check_definition(e, nat.inner, opts)


def check_after_close(e, b, before, ids, t, new, nvar_before, opts):
    defs = Layout.defs_of(b)
    variants = Layout.variants_of(b)

    def verify(cond, msg):
        # a concretely false fact is queued like a symbolic one: the remaining facts of this close (other
        # properties) are still decided on this path
        e.verify(z3.BoolVal(False) if cond is False else cond, msg)
    changed = bool(t['rm']) or bool(new)
    verify(len(variants) == nvar_before + (1 if changed or nvar_before == 0 else 0),
             'C12: number of variants after close is wrong')
    cur = [x.fields[0] for x in variants[-1].fields[1].items]
    live = [ids[i] for i in range(len(ids)) if i not in t['stale'] and i not in t['rm']]
    verify(sorted(cur) == sorted(live + new), 'C12: closed variant is not predecessor minus removals plus additions')
    info = {d.fields[0].fields[0]: Layout.info(d) for d in defs}
    # C03: nothing that existed before has moved
    for k, (o, s, a) in before.items():
        verify(info[k][0] == o, 'C03: datum %d moved' % k)
        verify(z3.And(info[k][1] == s, info[k][2] == a) if not (isinstance(s, int) and isinstance(a, int) and
                 isinstance(info[k][1], int)) else (info[k][1] == s and info[k][2] == a),
                 'C18: type information of datum %d changed' % k)
    # C02: alignment of everything in the variant
    for k in cur:
        o, s, a = info[k]
        verify(_mod_ok(o, a), 'C02: datum %d is not aligned' % k)
    # C01: pairwise disjoint (non-zero sizes)
    for x, y in itertools.combinations(cur, 2):
        ox, sx, _ = info[x]
        oy, sy, _ = info[y]
        verify(z3.Or(sx == 0, sy == 0, ox + sx <= oy, oy + sy <= ox), 'C01: data %d and %d overlap' % (x, y))
    # C02: list order, non-zero-size data strictly increasing
    for p in range(len(cur)):
        for q in range(p + 1, len(cur)):
            ox, sx, _ = info[cur[p]]
            oy, sy, _ = info[cur[q]]
            verify(z3.Or(sx == 0, sy == 0, ox + sx <= oy), 'C02: list order is not address order (%d before %d)' % (cur[p], cur[q]))
    # INV (strong): consecutive listed data, zero-size included
    if opts.get('check_inv', True):
        for p in range(len(cur) - 1):
            ox, sx, _ = info[cur[p]]
            oy, sy, _ = info[cur[p + 1]]
            verify(ox + sx <= oy, 'INV: list not address-sorted including zero-size data (%d before %d)' % (cur[p], cur[p + 1]))


def _mod_ok(o, a):
    if isinstance(a, int):
        return (o % a == 0)
    return z3.Or(*[z3.And(a == al, o % al == 0) for al in ALIGNS])


def record_env_path(e, b):
    """C19: remember, for a path that consulted the environment, its path condition and the offsets it
    produced; paths of one task are compared pairwise afterwards (same inputs, other environment)."""
    if e.env_reads == 0:
        return
    defs = Layout.defs_of(b)
    variants = Layout.variants_of(b)
    outs = [(d.fields[0].fields[0], Layout.info(d)[0]) for d in defs]
    order = [x.fields[0] for x in variants[-1].fields[1].items] if variants else []
    if not hasattr(e, 'path_records'):
        e.path_records = []
    e.path_records.append(dict(conds=list(e.solver.assertions()), outs=outs, order=order))


def env_pairs(e):
    """Pairwise query over the recorded paths: is there one request history for which two environments
    give different offsets / list orders? Returns a list of (message, model)."""
    recs = getattr(e, 'path_records', [])
    out = []
    if len(recs) < 2:
        return out
    import z3 as _z3
    def rename(conds, suffix):
        env = set()
        def collect(t):
            if _z3.is_const(t) and t.decl().kind() == _z3.Z3_OP_UNINTERPRETED and str(t).startswith('env_'):
                env.add(t)
            for c in t.children():
                collect(c)
        for c in conds:
            if _z3.is_expr(c):
                collect(c)
        sub = [(v, _z3.Int(str(v) + suffix) if _z3.is_int(v) else _z3.Bool(str(v) + suffix)) for v in env]
        return [_z3.substitute(c, *sub) if (sub and _z3.is_expr(c)) else c for c in conds], sub
    # cheap exclusion before the solver: two paths whose conditions contain an input-only literal and its
    # negation describe disjoint sets of request histories
    def mentions_env(t, memo={}):
        k = t.get_id()
        if k in memo:
            return memo[k]
        r = (_z3.is_const(t) and t.decl().kind() == _z3.Z3_OP_UNINTERPRETED and str(t).startswith('env_')) or \
            any(mentions_env(c) for c in t.children())
        memo[k] = r
        return r
    for r in recs:
        pos, neg = set(), set()
        for c in r['conds']:
            if not _z3.is_expr(c) or mentions_env(c):
                continue
            lits = c.children() if _z3.is_and(c) else [c]
            for l in lits:
                pos.add(l.get_id())
                neg.add((l.arg(0) if _z3.is_not(l) else _z3.Not(l)).get_id())
        r['_pos'], r['_neg'] = pos, neg
    for i in range(len(recs)):
        for j in range(i + 1, len(recs)):
            a, b_ = recs[i], recs[j]
            if a['order'] == b_['order'] and not a['outs'] and not b_['outs']:
                continue
            if a['_pos'] & b_['_neg']:
                continue
            ca, _ = rename(a['conds'], '__A')
            cb, _ = rename(b_['conds'], '__B')
            diffs = []
            if a['order'] != b_['order']:
                diffs.append(_z3.BoolVal(True))
            bo = dict(b_['outs'])
            for k, oa in a['outs']:
                if k in bo:
                    d = (oa != bo[k])
                    if isinstance(d, bool):
                        if d:
                            diffs.append(_z3.BoolVal(True))
                    else:
                        diffs.append(d)
            if not diffs:
                continue
            s = _z3.Solver()
            s.add(*[c for c in ca if _z3.is_expr(c)])
            s.add(*[c for c in cb if _z3.is_expr(c)])
            s.add(_z3.Or(*diffs))
            if s.check() == _z3.sat:
                m = s.model()
                md = {str(d): (m[d].as_long() if hasattr(m[d], 'as_long') else str(m[d])) for d in m.decls()}
                out.append(('C19: one request history, two environments (e.g. hash iteration orders) give different offsets or list orders', md))
                return out
    return out


def check_env(e):
    e.verify(e.env_reads == 0, 'C19: the builder / strategy code consulted its environment (hash iteration order, addresses, clock, process '
             'environment): %d reads on this path' % e.env_reads)


def check_definition(e, b, opts):
    """build(), capacity, alignment, Display: C02 (capacity / record alignment) and C13 (no panic)."""
    check_env(e)
    e.flush_checks()
    # the definition as the real build() hands it out (offsets per id must be those of the builder)
    snapshot = {d.fields[0].fields[0]: Layout.info(d) for d in Layout.defs_of(b)}
    listed = [[x.fields[0] for x in var.fields[1].items] for var in Layout.variants_of(b)]
    saved_tag = e.panic_tag
    e.panic_tag = 'C13: build() panics'
    defn = e.call(GB + 'build', [b])
    e.panic_tag = saved_tag
    bdefs = defn.fields[0].fields[0].items
    for vi, var in enumerate(defn.fields[1].items):
        ids_v = [x.fields[0] for x in var.fields[1].items]
        e.verify(vi < len(listed) and ids_v == listed[vi], 'C12: build() changed the data of variant %d' % vi)
        for k in ids_v:
            found = [d for d in bdefs if d.fields[0].fields[0] == k]
            at_index = bdefs[k] if k < len(bdefs) else None
            e.verify(at_index is not None and at_index.fields[0].fields[0] == k, 'C03: after build() datum %d of a closed variant is not found under its identifier' % k)
            if at_index is not None and k in snapshot:
                e.verify(Layout.info(at_index)[0] == snapshot[k][0], 'C03: datum %d moved when the definition was built' % k)
    e.verify(len(defn.fields[1].items) == len(listed), 'C12: build() changed the number of variants')
    b = Agg('Builder', None, [defn.fields[0], defn.fields[1]])
    dcell = [defn]
    dref = Ref(dcell, 0)
    saved = e.panic_tag
    e.panic_tag = 'C13: computing the capacity panics'
    ms = e.call('RecordDefinition::<NativeDatumDetails>::max_size', [dref])
    e.panic_tag = 'C13: computing the record alignment panics'
    ma = e.call('RecordDefinition::<NativeDatumDetails>::max_type_align', [dref])
    e.panic_tag = saved
    defs = Layout.defs_of(b)
    seen = set()
    for var in Layout.variants_of(b):
        for x in var.fields[1].items:
            k = x.fields[0]
            if k in seen:
                continue
            seen.add(k)
            o, s, a = Layout.info(defs[k])
            e.verify(o + s <= ms, 'C02: datum %d ends beyond the published capacity' % k)
            if isinstance(a, int):
                e.verify(ma % a == 0 if not isinstance(ma, int) else (ma % a == 0), 'C02: record alignment is not a multiple of datum %d alignment' % k)
            else:
                e.verify(z3.Or(*[z3.And(a == al, ma % al == 0) for al in ALIGNS]), 'C02: record alignment is not a multiple of datum %d alignment' % k)
    if opts.get('display', True):
        e.flush_checks()
        e.panic_tag = 'C13: rendering the definition as text panics'
        fc = [Agg('Formatter', None, [])]
        e.call('<RecordDefinition<NativeDatumDetails> as Display>::fmt', [dref, Ref(fc, 0)])
        e.panic_tag = saved


def model_to_scenario(t, model, opts):
    """Concrete replay scenario (JSON-able) from a solver model of a STEP path."""
    g = lambda k, d=0: int(model.get(k, d))
    n = t['K'] + t['S']
    pre = [dict(o=g('o%d' % i), s=g('s%d' % i), a=g('a%d' % i, 1)) for i in range(n)]
    new = []
    for j in range(t['M']):
        a = t['new_aligns'][j] if t.get('new_aligns') else g('na%d' % j, 1)
        new.append(dict(s=g('ns%d' % j), a=a))
    pend = [dict(s=g('ps%d' % j), a=g('pa%d' % j, 1)) for j in range(t['P'])]
    live = [i for i in range(n) if i not in t['stale'] and i not in t['rm']]
    sc = dict(kind='step', strategy=t['strategy'], pre=pre, stale=t['stale'], rm=t['rm'], pending=pend, new=new,
              clash=('p%d' % live[0]) if (live and not t.get('fixed')) else None)
    if t.get('fixed'):
        f = t['fixed']
        gf = lambda k, d=0: int(f.get(k, d))
        sc['pre'] = [dict(o=gf('o%d' % i), s=gf('s%d' % i), a=gf('a%d' % i, 1)) for i in range(n)]
        sc['new'] = [dict(s=gf('ns%d' % j), a=(t['new_aligns'][j] if t.get('new_aligns') else gf('na%d' % j, 1))) for j in range(t['M'])]
        sc['pending'] = [dict(s=gf('ps%d' % j), a=gf('pa%d' % j, 1)) for j in range(t['P'])]
    if t.get('then'):
        then = []
        names = ['p%d' % i for i in range(n)] + ['q%d' % j for j in range(t['P'])] + ['n%d' % j for j in range(t['M'])]
        for si, th in enumerate(t['then']):
            rm = sorted(int(k.split('_')[2]) for k, val in model.items() if k.startswith('t%d_rm_' % si) and str(val) == 'True')
            then.append(dict(strategy=th['strategy'], rm_names=[names[i] for i in rm if i < len(names)],
                             add=[dict(s=g('t%d_s%d' % (si, j)), a=g('t%d_a%d' % (si, j), 1)) for j in range(th['M'])]))
            names += ['t%d_%d' % (si, j) for j in range(th['M'])]
        sc['then'] = then
    return sc


# ------------------------------------------------------------------------------------------ DEF
def def_tasks(K, P):
    return [dict(kind='def', K=K, P=P, pending_first=False)] + ([dict(kind='def', K=K, P=P, pending_first=True)] if P else [])


def run_def(e, t, opts):
    """An arbitrary closed variant satisfying the invariant (+ P data added and removed before a close):
    build(), capacity, record alignment and Display must not panic, capacity/alignment must cover all data."""
    aligns = opts.get('aligns', ALIGNS)
    b = e.call(GB + 'new', [])
    cell = [b]
    bref = Ref(cell, 0)
    pre = sym_prestate(e, t['K'], aligns, opts.get('smax', SMAX), opts.get('omax', OMAX), True)

    def pending():
        for j in range(t['P']):
            a = e.choose(e.fresh_int('pa%d' % j, 1, max(aligns)), aligns)
            s = e.fresh_int('ps%d' % j, 0, opts.get('smax', SMAX))
            r = e.call(GB + 'add_datum', [bref, 'q%d' % j, details(USIZE_MAX, s, a)])
            e.call(GB + 'remove_datum', [bref, r.fields[0]])
    if t.get('pending_first'):
        pending()
    for i, (o, s, a) in enumerate(pre):
        e.call(GB + 'add_datum', [bref, 'p%d' % i, details(o, s, a)])
    e.call(GB + 'close_record_variant_with', [bref, FnVal('__identity_strategy')])
    if not t.get('pending_first'):
        pending()
    check_definition(e, cell[0], opts)


def def_scenario(t, model):
    g = lambda k, d=0: int(model.get(k, d))
    pre = [dict(o=g('o%d' % i), s=g('s%d' % i), a=g('a%d' % i, 1)) for i in range(t['K'])]
    pend = [dict(s=g('ps%d' % j), a=g('pa%d' % j, 1)) for j in range(t['P'])]
    return dict(kind='step', strategy='append_data', pre=pre, stale=[], rm=[], pending=pend, new=[], pending_first=bool(t.get('pending_first')))


# ------------------------------------------------------------------------------------------ HIST
def hist_tasks(strategies, V, adds_options):
    tasks = []
    for strats in itertools.product(strategies, repeat=V):
        for adds in adds_options:
            tasks.append(dict(kind='hist', strats=list(strats), adds=list(adds)))
    return tasks


def run_hist(e, t, opts):
    aligns = opts.get('aligns', ALIGNS)
    smax = opts.get('smax', SMAX)
    nat = Native(e)
    n = 0
    snapshots = {}
    for v, st in enumerate(t['strats']):
        variants = Layout.variants_of(nat.inner)
        cur = [x.fields[0] for x in variants[-1].fields[1].items] if variants else []
        removed = []
        for d in cur:
            if e.branch(z3.Bool('rm_%d_%d' % (v, d))):
                r = nat.remove(d)
                e.verify(r.variant == 0, 'C12: removal of a live datum was rejected')
                removed.append(d)
        new = []
        for j in range(t['adds'][v]):
            a = e.choose(e.fresh_int('a%d' % n, 1, max(aligns)), aligns)
            s = e.fresh_int('s%d' % n, 0, smax)
            r = nat.add('f%d' % n, s, a)
            e.verify(r.variant == 0, 'C12: addition with a fresh name was rejected')
            new.append(r.fields[0].fields[0])
            # add-then-remove before close
            if opts.get('pending', False) and e.branch(z3.Bool('undo_%d' % n)):
                nat.remove(new.pop())
            n += 1
        nvb = len(variants)
        nat.close(st)
        tt = dict(stale=[], rm=[], K=0)
        # reuse the STEP checks with explicit id lists
        ids_all = cur
        fake_t = dict(stale=[], rm=[ids_all.index(d) for d in removed])
        check_after_close(e, nat.inner, snapshots, ids_all, fake_t, new, nvb, dict(opts, check_inv=opts.get('check_inv', False)))
        for d in Layout.defs_of(nat.inner):
            k = d.fields[0].fields[0]
            if k not in snapshots and any(k == x.fields[0] for var in Layout.variants_of(nat.inner) for x in var.fields[1].items):
                snapshots[k] = Layout.info(d)
    check_definition(e, nat.inner, opts)


def model_to_hist_scenario(t, model):
    g = lambda k, d=0: model.get(k, d)
    steps = []
    n = 0
    for v, st in enumerate(t['strats']):
        rm = sorted(int(k.split('_')[2]) for k, val in model.items() if k.startswith('rm_%d_' % v) and str(val) == 'True')
        adds = []
        for j in range(t['adds'][v]):
            adds.append(dict(s=int(g('s%d' % n)), a=int(g('a%d' % n, 1)), undo=str(g('undo_%d' % n, 'False')) == 'True'))
            n += 1
        steps.append(dict(strategy=st, rm=rm, add=adds))
    return dict(kind='hist', steps=steps)
