"""Spike: std-library model for the MIR interpreter."""
import re
import z3
from engine import (Agg, VecV, MapV, Ref, FnVal, IterV, UNIT, some, none, is_sym, clone_val, deep_clone, Panic,
                    Unsupported)
import mirparse as mp


def deref(v):
    while isinstance(v, Ref):
        v = v.get()
    return v


class ProcGlobal:
    """content of a process-global object at entry of the function under analysis (environment)"""
    def __repr__(self):
        return '<process-global state>'


PROC_GLOBAL = ProcGlobal()


def ok(v=UNIT):
    return Agg('Result', 0, [v])


def err(v):
    return Agg('Result', 1, [v])


def register(E):
    B = E.builtins

    # ------------------------------------------------------------------ Vec / slices
    B['Vec::new'] = lambda e, a, c: VecV()
    B['Vec::with_capacity'] = lambda e, a, c: VecV()

    def vec_push(e, a, c):
        deref(a[0]).items.append(a[1])
        return UNIT
    B['Vec::push'] = vec_push

    def vec_insert(e, a, c):
        v = deref(a[0])
        idx = e.choose(a[1], list(range(len(v.items) + 1)))
        if idx > len(v.items):
            raise Panic('insertion index out of bounds')
        v.items.insert(idx, a[2])
        return UNIT
    B['Vec::insert'] = vec_insert

    def vec_remove(e, a, c):
        v = deref(a[0])
        idx = e.choose(a[1], list(range(len(v.items) + 1)))
        if idx >= len(v.items):
            raise Panic('removal index out of bounds')
        return v.items.pop(idx)
    B['Vec::remove'] = vec_remove
    B['Vec::len'] = lambda e, a, c: len(deref(a[0]).items)
    B['Vec::is_empty'] = lambda e, a, c: len(deref(a[0]).items) == 0
    B['slice::len'] = B['Vec::len']
    B['slice::is_empty'] = B['Vec::is_empty']

    def vec_retain(e, a, c):
        v = deref(a[0])
        keep = []
        for i in range(len(v.items)):
            r = e.call_value(a[1], [Ref(v.items, i)])
            if e.branch(r):
                keep.append(v.items[i])
        v.items[:] = keep
        return UNIT
    B['Vec::retain'] = vec_retain

    def identity_ref(e, a, c):
        return a[0]
    B['Deref::deref'] = identity_ref
    B['DerefMut::deref_mut'] = identity_ref
    B['AsRef::as_ref'] = identity_ref

    def index(e, a, c):
        v = deref(a[0])
        i = a[1]
        if isinstance(v, MapV):
            k = deref(i)
            for j, kk in enumerate(v.keys):
                if e.branch(e.eq(kk, k)):
                    return Ref(v.vals, j)
            raise Panic('BTreeMap index: key not found')
        if isinstance(i, Agg) and i.name == 'RangeFrom':
            start = e.choose(i.fields[0], list(range(len(v.items) + 1)))
            if start > len(v.items):
                raise Panic('range start out of bounds')
            cell = [VecV(v.items[start:])]
            return Ref(cell, 0)
        idx = e.choose(i, list(range(len(v.items) + 1)))
        if idx >= len(v.items):
            raise Panic('index out of bounds')
        return Ref(v.items, idx)
    B['Index::index'] = index
    B['IndexMut::index_mut'] = index

    def slice_iter(e, a, c):
        v = deref(a[0])
        return IterV('slice', vec=v, i=0, j=len(v.items), by_ref=True)
    B['slice::iter'] = slice_iter
    B['slice::iter_mut'] = slice_iter

    def slice_last(e, a, c):
        v = deref(a[0])
        return some(Ref(v.items, len(v.items) - 1)) if v.items else none()
    B['slice::last'] = slice_last

    def slice_get(e, a, c):
        v = deref(a[0])
        i = a[1]
        if is_sym(i):
            i = e.choose(i, list(range(len(v.items) + 1)))
        return some(Ref(v.items, i)) if 0 <= i < len(v.items) else none()
    B['slice::get'] = slice_get
    B['slice::get_mut'] = slice_get

    def slice_contains(e, a, c):
        v = deref(a[0])
        x = deref(a[1])
        for it in v.items:
            if e.branch(e.eq(it, x)):
                return True
        return False
    B['slice::contains'] = slice_contains

    def binary_search(e, a, c):
        # std's algorithm (branchless variant of current toolchains), replicated step by step so that
        # the result on an *unsorted* slice is the one the real code gets
        v = deref(a[0])
        key = deref(a[1])
        size = len(v.items)
        if size == 0:
            return err(0)
        base = 0
        while size > 1:
            half = size // 2
            mid = base + half
            if e.cmp3(e, v.items[mid], key) <= 0:
                base = mid
            size -= half
        r = e.cmp3(e, v.items[base], key)
        if r == 0:
            return ok(base)
        return err(base + (1 if r < 0 else 0))
    B['slice::binary_search'] = binary_search

    def slice_sort(e, a, c):
        v = deref(a[0])
        items = list(v.items)
        out = []
        for x in items:       # insertion sort driven by the element type's own ordering
            i = 0
            while i < len(out) and e.cmp3(e, out[i], x) <= 0:
                i += 1
            out.insert(i, x)
        v.items[:] = out
        return UNIT
    B['slice::sort'] = slice_sort
    B['slice::sort_unstable'] = slice_sort

    def vec_pop(e, a, c):
        v = deref(a[0])
        return some(v.items.pop()) if v.items else none()
    B['Vec::pop'] = vec_pop

    def vec_clear(e, a, c):
        deref(a[0]).items[:] = []
        return UNIT
    B['Vec::clear'] = vec_clear

    def vec_truncate(e, a, c):
        v = deref(a[0])
        n = e.choose(a[1], list(range(len(v.items) + 1))) if is_sym(a[1]) else a[1]
        del v.items[n:]
        return UNIT
    B['Vec::truncate'] = vec_truncate

    def vec_extend(e, a, c):
        v = deref(a[0])
        src = a[1]
        if isinstance(src, (VecV, Ref)) and isinstance(deref(src), VecV):
            v.items.extend(clone_val(x) for x in deref(src).items)
        else:
            v.items.extend(drain(e, into_iter(e, [src], '')))
        return UNIT
    B['Vec::extend'] = vec_extend
    B['Extend::extend'] = vec_extend
    B['Vec::extend_from_slice'] = vec_extend

    def vec_swap_remove(e, a, c):
        v = deref(a[0])
        idx = e.choose(a[1], list(range(len(v.items) + 1)))
        if idx >= len(v.items):
            raise Panic('swap_remove index out of bounds')
        x = v.items[idx]
        v.items[idx] = v.items[-1]
        v.items.pop()
        return x
    B['Vec::swap_remove'] = vec_swap_remove

    def slice_first(e, a, c):
        v = deref(a[0])
        return some(Ref(v.items, 0)) if v.items else none()
    B['slice::first'] = slice_first
    B['Vec::contains'] = lambda e, a, c: slice_contains(e, a, c)
    B['slice::to_vec'] = lambda e, a, c: VecV([clone_val(x) for x in deref(a[0]).items])
    B['Vec::as_slice'] = lambda e, a, c: a[0]
    B['Vec::as_mut_slice'] = lambda e, a, c: a[0]

    # ------------------------------------------------------------------ iterators
    def into_iter(e, a, c):
        x = a[0]
        if isinstance(x, IterV):
            return x
        if isinstance(x, VecV):
            return IterV('slice', vec=x, i=0, j=len(x.items), by_ref=False)
        if isinstance(x, Ref):
            v = deref(x)
            if isinstance(v, VecV):
                return IterV('slice', vec=v, i=0, j=len(v.items), by_ref=True)
        if isinstance(deref(x), MapV):
            m = deref(x)
            is_set = all(v is UNIT for v in m.vals) and len(m.vals) > 0 and 'Set' in c
            return (e.set_into_iter if is_set else e.map_into_iter)(e, [x], c)
        if isinstance(x, Agg) and x.name == 'Option':
            v = VecV(list(x.fields) if x.variant == 1 else [])
            return IterV('slice', vec=v, i=0, j=len(v.items), by_ref=False)
        raise Unsupported('into_iter of %r' % (x,))
    B['IntoIterator::into_iter'] = into_iter

    def it_next(e, it):
        k = it.kind
        if k == 'slice':
            if it.i < it.j:
                r = Ref(it.vec.items, it.i) if it.by_ref else it.vec.items[it.i]
                it.i += 1
                return some(r)
            return none()
        if k == 'rev':
            return it_next_back(e, it.inner)
        if k == 'enumerate':
            x = it_next(e, it.inner)
            if x.variant == 0:
                return x
            n = it.n
            it.n += 1
            return some(Agg('tuple', None, [n, x.fields[0]]))
        if k == 'cloned':
            x = it_next(e, it.inner)
            if x.variant == 0:
                return x
            y = x.fields[0]
            return some(clone_val(y.get() if isinstance(y, Ref) else y))   # one level: &&T -> &T
        if k == 'filter':
            while True:
                x = it_next(e, it.inner)
                if x.variant == 0:
                    return x
                cell = [x.fields[0]]
                if e.branch(e.call_value(it.f, [Ref(cell, 0)])):
                    return x
        if k == 'filter_map':
            while True:
                x = it_next(e, it.inner)
                if x.variant == 0:
                    return x
                r = e.call_value(it.f, [x.fields[0]])
                if r.variant == 1:
                    return r
        if k == 'map':
            x = it_next(e, it.inner)
            if x.variant == 0:
                return x
            return some(e.call_value(it.f, [x.fields[0]]))
        if k == 'chain':
            if it.a is not None:
                x = it_next(e, it.a)
                if x.variant == 1:
                    return x
                it.a = None
            return it_next(e, it.b)
        if k == 'flatten':
            while True:
                if it.cur is not None:
                    x = it_next(e, it.cur)
                    if x.variant == 1:
                        return x
                    it.cur = None
                nx = it_next(e, it.inner)
                if nx.variant == 0:
                    return nx
                it.cur = into_iter(e, [nx.fields[0]], '')
        raise Unsupported('iterator kind ' + k)

    def it_next_back(e, it):
        if it.kind == 'slice':
            if it.i < it.j:
                it.j -= 1
                r = Ref(it.vec.items, it.j) if it.by_ref else it.vec.items[it.j]
                return some(r)
            return none()
        if it.kind == 'cloned':
            x = it_next_back(e, it.inner)
            if x.variant == 0:
                return x
            y = x.fields[0]
            return some(clone_val(y.get() if isinstance(y, Ref) else y))
        raise Unsupported('next_back on ' + it.kind)

    E.it_next = it_next
    B['Iterator::next'] = lambda e, a, c: it_next(e, deref(a[0]))
    B['Iterator::enumerate'] = lambda e, a, c: IterV('enumerate', inner=a[0], n=0)
    B['Iterator::cloned'] = lambda e, a, c: IterV('cloned', inner=a[0])
    B['Iterator::copied'] = B['Iterator::cloned']
    B['Iterator::rev'] = lambda e, a, c: IterV('rev', inner=a[0])
    B['Iterator::filter'] = lambda e, a, c: IterV('filter', inner=a[0], f=a[1])
    B['Iterator::filter_map'] = lambda e, a, c: IterV('filter_map', inner=a[0], f=a[1])
    B['Iterator::map'] = lambda e, a, c: IterV('map', inner=a[0], f=a[1])
    B['Iterator::chain'] = lambda e, a, c: IterV('chain', a=a[0], b=into_iter(e, [a[1]], ''))
    B['Iterator::flatten'] = lambda e, a, c: IterV('flatten', inner=a[0], cur=None)
    B['Iterator::flat_map'] = lambda e, a, c: IterV('flatten', inner=IterV('map', inner=a[0], f=a[1]), cur=None)

    def it_count(e, a, c):
        return len(drain(e, deref(a[0]) if not isinstance(a[0], IterV) else a[0]))
    B['Iterator::count'] = it_count

    def it_all(e, a, c):
        it = deref(a[0])
        while True:
            x = it_next(e, it)
            if x.variant == 0:
                return True
            if not e.branch(e.call_value(a[1], [x.fields[0]])):
                return False
    B['Iterator::all'] = it_all

    def it_last(e, a, c):
        items = drain(e, a[0])
        return some(items[-1]) if items else none()
    B['Iterator::last'] = it_last

    def it_sum(e, a, c):
        acc = 0
        for x in drain(e, a[0]):
            acc = acc + deref(x)
        return acc
    B['Iterator::sum'] = it_sum

    def it_min(e, a, c):
        items = drain(e, a[0])
        if not items:
            return none()
        m = items[0]
        for x in items[1:]:
            if is_sym(x) or is_sym(m):
                m = z3.If(x < m, x, m)
            elif x < m:
                m = x
        return some(m)
    B['Iterator::min'] = it_min
    B['Iterator::skip'] = lambda e, a, c: IterV('slice', vec=VecV(drain(e, a[0])[a[1]:]), i=0, j=max(0, len(drain.last) - a[1]) if False else 0, by_ref=False) if False else _skip(e, a)
    B['Iterator::take'] = lambda e, a, c: _take(e, a)
    B['Iterator::zip'] = lambda e, a, c: _zip(e, a)

    def _skip(e, a):
        items = drain(e, a[0])[a[1]:]
        return IterV('slice', vec=VecV(items), i=0, j=len(items), by_ref=False)

    def _take(e, a):
        items = drain(e, a[0])[:a[1]]
        return IterV('slice', vec=VecV(items), i=0, j=len(items), by_ref=False)

    def _zip(e, a):
        x = drain(e, a[0])
        y = drain(e, into_iter(e, [a[1]], ''))
        items = [Agg('tuple', None, [p, q]) for p, q in zip(x, y)]
        return IterV('slice', vec=VecV(items), i=0, j=len(items), by_ref=False)

    def group_map_by(e, a, c):
        m = MapV()
        m.hashed = True
        for x in drain(e, a[0]):
            cell = [x]
            k = e.call_value(a[1], [Ref(cell, 0)])
            i, found = locate(e, m, k)
            if not found:
                m.keys.insert(i, k)
                m.vals.insert(i, VecV())
            m.vals[i].items.append(x)
        return m
    B['Itertools::into_group_map_by'] = group_map_by

    def _sorted_items(e, items, keyf=None, cmpf=None):
        out = []
        for x in items:            # stable insertion sort driven by the real comparison
            i = len(out)
            while i > 0:
                y = out[i - 1]
                if cmpf is not None:
                    r = e.call_value(cmpf, [Ref([y], 0), Ref([x], 0)])
                    gt = (r.variant == 1) if isinstance(r, Agg) else False
                else:
                    ky = e.call_value(keyf, [Ref([y], 0)]) if keyf is not None else y
                    kx = e.call_value(keyf, [Ref([x], 0)]) if keyf is not None else x
                    gt = e.cmp3(e, ky, kx) > 0
                if not gt:
                    break
                i -= 1
            out.insert(i, x)
        return out

    def it_sorted(e, a, c):
        items = _sorted_items(e, drain(e, a[0]))
        return IterV('slice', vec=VecV(items), i=0, j=len(items), by_ref=False)
    B['Itertools::sorted'] = it_sorted

    def it_sorted_by_key(e, a, c):
        items = _sorted_items(e, drain(e, a[0]), keyf=a[1])
        return IterV('slice', vec=VecV(items), i=0, j=len(items), by_ref=False)
    B['Itertools::sorted_by_key'] = it_sorted_by_key
    B['Itertools::sorted_by_cached_key'] = it_sorted_by_key

    def it_sorted_by(e, a, c):
        items = _sorted_items(e, drain(e, a[0]), cmpf=a[1])
        return IterV('slice', vec=VecV(items), i=0, j=len(items), by_ref=False)
    B['Itertools::sorted_by'] = it_sorted_by

    def slice_sort_by_key(e, a, c):
        v = deref(a[0])
        v.items[:] = _sorted_items(e, list(v.items), keyf=a[1])
        return UNIT
    B['slice::sort_by_key'] = slice_sort_by_key
    B['slice::sort_unstable_by_key'] = slice_sort_by_key
    B['slice::sort_by_cached_key'] = slice_sort_by_key

    def slice_sort_by(e, a, c):
        v = deref(a[0])
        v.items[:] = _sorted_items(e, list(v.items), cmpf=a[1])
        return UNIT
    B['slice::sort_by'] = slice_sort_by
    B['slice::sort_unstable_by'] = slice_sort_by

    def it_take_while(e, a, c):
        out = []
        it = a[0]
        while True:
            x = it_next(e, it)
            if x.variant == 0:
                break
            cell = [x.fields[0]]
            if not e.branch(e.call_value(a[1], [Ref(cell, 0)])):
                break
            out.append(x.fields[0])
        return IterV('slice', vec=VecV(out), i=0, j=len(out), by_ref=False)
    B['Iterator::take_while'] = it_take_while

    def it_skip_while(e, a, c):
        items = drain(e, a[0])
        i = 0
        while i < len(items):
            cell = [items[i]]
            if not e.branch(e.call_value(a[1], [Ref(cell, 0)])):
                break
            i += 1
        rest = items[i:]
        return IterV('slice', vec=VecV(rest), i=0, j=len(rest), by_ref=False)
    B['Iterator::skip_while'] = it_skip_while

    def it_partition(e, a, c):
        yes, no = [], []
        for x in drain(e, a[0]):
            cell = [x]
            (yes if e.branch(e.call_value(a[1], [Ref(cell, 0)])) else no).append(x)
        return Agg('tuple', None, [VecV(yes), VecV(no)])
    B['Iterator::partition'] = it_partition

    def it_for_each(e, a, c):
        for x in drain(e, a[0]):
            e.call_value(a[1], [x])
        return UNIT
    B['Iterator::for_each'] = it_for_each

    def it_by_key(pick_max):
        def f(e, a, c):
            items = drain(e, a[0])
            if not items:
                return none()
            best, bk = items[0], e.call_value(a[1], [Ref([items[0]], 0)])
            for x in items[1:]:
                k = e.call_value(a[1], [Ref([x], 0)])
                r = e.cmp3(e, k, bk)
                if (r >= 0) if pick_max else (r < 0):
                    best, bk = x, k
            return some(best)
        return f
    B['Iterator::max_by_key'] = it_by_key(True)
    B['Iterator::min_by_key'] = it_by_key(False)

    def drain(e, it):
        out = []
        while True:
            x = it_next(e, it)
            if x.variant == 0:
                return out
            out.append(x.fields[0])

    def collect(e, a, c):
        items = drain(e, a[0])
        if 'collect::<Vec' in c or 'collect::<std::vec::Vec' in c:
            return VecV(items)
        m_ = re.search(r'collect::<(?:std::collections::)?(BTreeSet|HashSet|BTreeMap|HashMap)<', c)
        if m_:
            mp_ = MapV()
            mp_.hashed = m_.group(1).startswith('Hash')
            for x in items:
                if m_.group(1).endswith('Set'):
                    i, found = locate(e, mp_, x)
                    if not found:
                        mp_.keys.insert(i, x)
                        mp_.vals.insert(i, UNIT)
                else:
                    k, v_ = x.fields[0], x.fields[1]
                    i, found = locate(e, mp_, k)
                    if found:
                        mp_.vals[i] = v_
                    else:
                        mp_.keys.insert(i, k)
                        mp_.vals.insert(i, v_)
            return mp_
        raise Unsupported('collect target ' + c)
    B['Iterator::collect'] = collect

    def position(e, a, c):
        it = deref(a[0])
        n = 0
        while True:
            x = it_next(e, it)
            if x.variant == 0:
                return none()
            if e.branch(e.call_value(a[1], [x.fields[0]])):
                return some(n)
            n += 1
    B['Iterator::position'] = position

    def any_(e, a, c):
        it = deref(a[0])
        while True:
            x = it_next(e, it)
            if x.variant == 0:
                return False
            if e.branch(e.call_value(a[1], [x.fields[0]])):
                return True
    B['Iterator::any'] = any_

    def find(e, a, c):
        it = deref(a[0])
        while True:
            x = it_next(e, it)
            if x.variant == 0:
                return x
            cell = [x.fields[0]]
            if e.branch(e.call_value(a[1], [Ref(cell, 0)])):
                return x
    B['Iterator::find'] = find

    def fold(e, a, c):
        acc = a[1]
        for x in drain(e, a[0]):
            acc = e.call_value(a[2], [acc, x])
        return acc
    B['Iterator::fold'] = fold

    def imax(e, a, c):
        items = drain(e, a[0])
        if not items:
            return none()
        m = items[0]
        for x in items[1:]:
            # value merge instead of a fork: max is a function of its operands
            if is_sym(x) or is_sym(m):
                m = z3.If(x >= m, x, m)
            elif x >= m:
                m = x
        return some(m)
    B['Iterator::max'] = imax

    def reduce(e, a, c):
        items = drain(e, a[0])
        if not items:
            return none()
        acc = items[0]
        for x in items[1:]:
            acc = e.call_value(a[1], [acc, x])
        return some(acc)
    B['Iterator::reduce'] = reduce

    def ord_max(e, a, c):
        if is_sym(a[0]) or is_sym(a[1]):
            return z3.If(a[0] > a[1], a[0], a[1])
        return a[0] if a[0] > a[1] else a[1]
    B['Ord::max'] = ord_max
    B['<usize as Ord>::max'] = ord_max

    def ord_cmp(e, a, c):
        x, y = deref(a[0]), deref(a[1])
        return Agg('Ordering', cmp3(e, x, y), [])
    B['Ord::cmp'] = ord_cmp
    B['PartialOrd::partial_cmp'] = lambda e, a, c: some(ord_cmp(e, a, c))

    def cmp3(e, x, y):
        x, y = deref(x), deref(y)
        if isinstance(x, Agg) and x.name == 'Reverse' and isinstance(y, Agg):
            return -cmp3(e, x.fields[0], y.fields[0])
        if isinstance(x, Agg):
            for fx, fy in zip(x.fields, y.fields):
                r = cmp3(e, fx, fy)
                if r != 0:
                    return r
            return 0
        if e.branch(x < y):
            return -1
        if e.branch(x == y):
            return 0
        return 1
    E.cmp3 = cmp3

    def peq(e, a, c):
        return e.eq(deref(a[0]), deref(a[1]))
    B['PartialEq::eq'] = peq

    # ------------------------------------------------------------------ Option / bool
    def unwrap_or_else(e, a, c):
        o = a[0]
        if o.variant == 1:
            return o.fields[0]
        return e.call_value(a[1], [])
    B['Option::unwrap_or_else'] = unwrap_or_else

    def unwrap(e, a, c):
        o = a[0]
        if o.variant == 1 and o.name == 'Option' or o.variant == 0 and o.name == 'Result':
            return o.fields[0]
        raise Panic('unwrap on None/Err')
    B['Option::unwrap'] = unwrap
    B['Result::unwrap'] = unwrap
    B['Option::expect'] = unwrap
    B['Option::unwrap_or'] = lambda e, a, c: a[0].fields[0] if a[0].variant == 1 else a[1]
    B['Option::unwrap_or_default'] = lambda e, a, c: a[0].fields[0] if a[0].variant == 1 else VecV()
    B['Option::ok_or'] = lambda e, a, c: ok(a[0].fields[0]) if a[0].variant == 1 else err(a[1])
    B['Option::ok_or_else'] = lambda e, a, c: ok(a[0].fields[0]) if a[0].variant == 1 else err(e.call_value(a[1], []))
    B['Option::cloned'] = lambda e, a, c: some(clone_val(deref(a[0].fields[0]))) if a[0].variant == 1 else none()
    B['Option::copied'] = B['Option::cloned']
    B['Option::map_or'] = lambda e, a, c: e.call_value(a[2], [a[0].fields[0]]) if a[0].variant == 1 else a[1]
    B['Option::map_or_else'] = lambda e, a, c: e.call_value(a[2], [a[0].fields[0]]) if a[0].variant == 1 else e.call_value(a[1], [])
    B['Option::as_ref'] = lambda e, a, c: (some(Ref(deref(a[0]).fields, 0)) if deref(a[0]).variant == 1 else none())
    B['Option::as_mut'] = B['Option::as_ref']
    B['Option::take'] = lambda e, a, c: _opt_take(a[0])
    B['Result::is_ok'] = lambda e, a, c: deref(a[0]).variant == 0
    B['Result::is_err'] = lambda e, a, c: deref(a[0]).variant == 1
    B['Result::ok'] = lambda e, a, c: some(a[0].fields[0]) if a[0].variant == 0 else none()
    B['Result::map'] = lambda e, a, c: ok(e.call_value(a[1], [a[0].fields[0]])) if a[0].variant == 0 else a[0]
    B['Result::map_err'] = lambda e, a, c: a[0] if a[0].variant == 0 else err(e.call_value(a[1], [a[0].fields[0]]))
    B['Result::unwrap_or'] = lambda e, a, c: a[0].fields[0] if a[0].variant == 0 else a[1]
    B['Result::expect'] = unwrap

    def _opt_take(r):
        v = r.get()
        r.set(none())
        return v
    B['Option::or_else'] = lambda e, a, c: a[0] if a[0].variant == 1 else e.call_value(a[1], [])
    B['Option::or'] = lambda e, a, c: a[0] if a[0].variant == 1 else a[1]
    B['Option::and'] = lambda e, a, c: a[1] if a[0].variant == 1 else none()
    B['Option::zip'] = lambda e, a, c: some(Agg('tuple', None, [a[0].fields[0], a[1].fields[0]])) if (a[0].variant == 1 and a[1].variant == 1) else none()
    B['Option::unwrap_or_else'] = unwrap_or_else
    B['Option::flatten'] = lambda e, a, c: a[0].fields[0] if a[0].variant == 1 else none()
    B['Option::is_some_and'] = lambda e, a, c: (e.branch(e.call_value(a[1], [a[0].fields[0]])) if a[0].variant == 1 else False)
    B['Option::is_none_or'] = lambda e, a, c: (e.branch(e.call_value(a[1], [a[0].fields[0]])) if a[0].variant == 1 else True)

    # ------------------------------------------------------------------ integer methods
    U64_ = 2 ** 64

    def checked(op):
        def f(e, a, c):
            x, y = a[0], a[1]
            r = (x + y) if op == 'add' else (x - y) if op == 'sub' else None
            if op == 'mul':
                x, y = e.mul_operands(x, y)
                r = x * y
            bad = (r >= U64_) if op != 'sub' else (r < 0)
            return none() if e.branch(bad) else some(r)
        return f
    for ty in ('usize', 'u64', 'u32'):
        B['<impl %s>::checked_add' % ty] = checked('add')
        B['<impl %s>::checked_sub' % ty] = checked('sub')
        B['<impl %s>::checked_mul' % ty] = checked('mul')
    B['checked_add'] = checked('add')
    B['checked_sub'] = checked('sub')
    B['checked_mul'] = checked('mul')

    def saturating(op):
        def f(e, a, c):
            x, y = a[0], a[1]
            if op == 'add':
                r = x + y
                return (U64_ - 1) if e.branch(r >= U64_) else r
            r = x - y
            return 0 if e.branch(r < 0) else r
        return f
    B['saturating_add'] = saturating('add')
    B['saturating_sub'] = saturating('sub')

    def int_min(e, a, c):
        x, y = deref(a[0]), deref(a[1])
        if is_sym(x) or is_sym(y):
            return z3.If(x <= y, x, y)
        return x if x <= y else y
    B['Ord::min'] = int_min
    B['std::cmp::min'] = int_min
    B['core::cmp::min'] = int_min
    B['min'] = int_min
    B['std::cmp::max'] = ord_max
    B['core::cmp::max'] = ord_max
    B['max'] = ord_max

    def abs_diff(e, a, c):
        x, y = a[0], a[1]
        if is_sym(x) or is_sym(y):
            return z3.If(x >= y, x - y, y - x)
        return abs(x - y)
    B['abs_diff'] = abs_diff

    def is_pow2(e, a, c):
        x = a[0]
        if is_sym(x):
            return z3.Or(*[x == 2 ** k for k in range(0, 20)])
        return x > 0 and x & (x - 1) == 0
    B['is_power_of_two'] = is_pow2

    def next_multiple_of(e, a, c):
        x, m = a[0], a[1]
        if is_sym(m):
            raise Unsupported('next_multiple_of by a symbolic value')
        return ((x + m - 1) / m * m) if is_sym(x) else (x + m - 1) // m * m
    B['next_multiple_of'] = next_multiple_of

    def div_ceil(e, a, c):
        x, m = a[0], a[1]
        if is_sym(m):
            raise Unsupported('div_ceil by a symbolic value')
        return ((x + m - 1) / m) if is_sym(x) else (x + m - 1) // m
    B['div_ceil'] = div_ceil

    B['Option::is_some'] = lambda e, a, c: deref(a[0]).variant == 1
    B['Option::is_none'] = lambda e, a, c: deref(a[0]).variant == 0
    B['Option::map'] = lambda e, a, c: some(e.call_value(a[1], [a[0].fields[0]])) if a[0].variant == 1 else none()
    B['Option::and_then'] = lambda e, a, c: e.call_value(a[1], [a[0].fields[0]]) if a[0].variant == 1 else none()

    def opt_filter(e, a, c):
        if a[0].variant == 0:
            return a[0]
        cell = [a[0].fields[0]]
        return a[0] if e.branch(e.call_value(a[1], [Ref(cell, 0)])) else none()
    B['Option::filter'] = opt_filter

    def bool_then(e, a, c):
        return some(e.call_value(a[1], [])) if e.branch(a[0]) else none()
    B['bool::then'] = bool_then

    def call_once(e, a, c):
        args = a[1].fields if len(a) > 1 and isinstance(a[1], Agg) and a[1].name == 'tuple' else a[1:]
        return e.call_value(a[0], list(args))
    B['FnOnce::call_once'] = call_once
    B['FnMut::call_mut'] = call_once
    B['Fn::call'] = call_once

    def try_branch(e, a, c):
        r = a[0]
        if r.variant == 0:
            return Agg('ControlFlow', 0, [r.fields[0]])
        return Agg('ControlFlow', 1, [Agg('Result', 1, [r.fields[0]])])
    B['Try::branch'] = try_branch
    B['FromResidual::from_residual'] = lambda e, a, c: a[0]

    # ------------------------------------------------------------------ BTreeMap (sorted association list)
    B['BTreeMap::new'] = lambda e, a, c: MapV()
    B['BTreeMap::is_empty'] = lambda e, a, c: len(deref(a[0]).keys) == 0
    def map_entry(e, a, c):
        m = deref(a[0])
        i, found = locate(e, m, a[1])
        inner = Agg('OccupiedEntry' if found else 'VacantEntry', None, [a[0], a[1], i])
        return Agg('Entry', 1 if found else 0, [inner])
    B['BTreeMap::entry'] = map_entry

    def vacant_insert(e, a, c):
        v = a[0]
        m = deref(v.fields[0])
        i = v.fields[2]
        m.keys.insert(i, v.fields[1])
        m.vals.insert(i, a[1])
        return Ref(m.vals, i)
    B['VacantEntry::insert'] = vacant_insert

    def occupied_get(e, a, c):
        o = deref(a[0])
        return Ref(deref(o.fields[0]).vals, o.fields[2])
    B['OccupiedEntry::get'] = occupied_get
    B['OccupiedEntry::get_mut'] = occupied_get
    B['OccupiedEntry::into_mut'] = occupied_get

    def occupied_insert(e, a, c):
        o = deref(a[0])
        m = deref(o.fields[0])
        old = m.vals[o.fields[2]]
        m.vals[o.fields[2]] = a[1]
        return old
    B['OccupiedEntry::insert'] = occupied_insert

    def occupied_remove(e, a, c):
        o = deref(a[0])
        m = deref(o.fields[0])
        m.keys.pop(o.fields[2])
        return m.vals.pop(o.fields[2])
    B['OccupiedEntry::remove'] = occupied_remove

    def locate(e, m, key):
        i = 0
        while i < len(m.keys):
            r = e.cmp3(e, key, m.keys[i])
            if r == 0:
                return i, True
            if r < 0:
                return i, False
            i += 1
        return i, False

    def _entry_parts(ent):
        inner = ent.fields[0]
        return deref(inner.fields[0]), inner.fields[1], inner.fields[2], ent.variant == 1

    def or_default(e, a, c):
        m, key, i, found = _entry_parts(a[0])
        if not found:
            m.keys.insert(i, key)
            m.vals.insert(i, VecV())
        return Ref(m.vals, i)
    B['Entry::or_default'] = or_default

    def or_insert_with(e, a, c):
        m, key, i, found = _entry_parts(a[0])
        if not found:
            val = e.call_value(a[1], []) if 'or_insert_with' in c else a[1]
            m.keys.insert(i, key)
            m.vals.insert(i, val)
        return Ref(m.vals, i)
    B['Entry::or_insert_with'] = or_insert_with
    B['Entry::or_insert'] = or_insert_with

    def partial_ord(rel):
        def f(e, a, c):
            r = e.cmp3(e, deref(a[0]), deref(a[1]))
            return {'lt': r < 0, 'le': r <= 0, 'gt': r > 0, 'ge': r >= 0}[rel]
        return f
    for rel in ('lt', 'le', 'gt', 'ge'):
        B['PartialOrd::' + rel] = partial_ord(rel)

    def pne(e, a, c):
        r = e.eq(deref(a[0]), deref(a[1]))
        return (not r) if isinstance(r, bool) else z3.Not(r)
    B['PartialEq::ne'] = pne

    def map_insert(e, a, c):
        m = deref(a[0])
        i, found = locate(e, m, a[1])
        if found:
            old = m.vals[i]
            m.vals[i] = a[2]
            return some(old)
        m.keys.insert(i, a[1])
        m.vals.insert(i, a[2])
        return none()
    B['BTreeMap::insert'] = map_insert

    def into_values(e, a, c):
        v = VecV(list(a[0].vals))
        return IterV('slice', vec=v, i=0, j=len(v.items), by_ref=False)
    B['BTreeMap::into_values'] = into_values

    # ------------------------------------------------------------------ hashed containers, clocks, process environment (C19)
    import itertools as _it

    def hash_new(e, a, c):
        m = MapV()
        m.hashed = True
        return m
    for k in ('HashMap::new', 'HashMap::default', 'HashMap::with_capacity', 'HashSet::new', 'HashSet::default', 'HashSet::with_capacity',
              'HashMap::with_hasher', 'HashSet::with_hasher'):
        B[k] = hash_new
    B['HashMap::is_empty'] = B['BTreeMap::is_empty']
    B['HashSet::is_empty'] = B['BTreeMap::is_empty']
    B['HashMap::len'] = lambda e, a, c: len(deref(a[0]).keys)
    B['HashSet::len'] = B['HashMap::len']
    B['BTreeMap::len'] = B['HashMap::len']
    B['HashMap::entry'] = B['BTreeMap::entry']
    B['HashMap::insert'] = map_insert

    def set_insert(e, a, c):
        m = deref(a[0])
        if isinstance(m, ProcGlobal):
            # whether the key is already there depends on what earlier calls in this process left: environment
            e.env_reads += 1
            return not e.branch(z3.Bool('env_global_has_%d' % e.env_reads))
        i, found = locate(e, m, a[1])
        if found:
            return False
        m.keys.insert(i, a[1])
        m.vals.insert(i, UNIT)
        return True
    B['HashSet::insert'] = set_insert
    B['BTreeSet::insert'] = set_insert
    B['BTreeSet::new'] = B['BTreeMap::new']

    def map_get(e, a, c):
        m = deref(a[0])
        i, found = locate(e, m, deref(a[1]))
        return some(Ref(m.vals, i)) if found else none()
    B['HashMap::get'] = map_get
    B['BTreeMap::get'] = map_get
    B['HashMap::get_mut'] = map_get
    B['BTreeMap::get_mut'] = map_get

    def map_contains(e, a, c):
        m = deref(a[0])
        i, found = locate(e, m, deref(a[1]))
        return found
    for k in ('HashMap::contains_key', 'BTreeMap::contains_key', 'HashSet::contains', 'BTreeSet::contains'):
        B[k] = map_contains

    def map_remove(e, a, c):
        m = deref(a[0])
        i, found = locate(e, m, deref(a[1]))
        if not found:
            return none() if 'Map' in c else False
        m.keys.pop(i)
        v = m.vals.pop(i)
        return some(v) if 'Map' in c else True
    for k in ('HashMap::remove', 'BTreeMap::remove', 'HashSet::remove', 'BTreeSet::remove'):
        B[k] = map_remove

    def env_order(e, m):
        # iteration order of a hashed container: chosen by the environment
        n = len(m.keys)
        idx = list(range(n))
        if not getattr(m, 'hashed', False) or n < 2:
            return idx
        e.env_reads += 1
        perms = list(_it.permutations(idx)) if n <= 3 else [tuple(idx), tuple(reversed(idx)), tuple(idx[1:] + idx[:1])]
        k = e.choose(e.fresh_int('env_order_%d' % e.env_reads, 0, len(perms) - 1), list(range(len(perms))))
        return list(perms[k])

    def map_iter(what, by_ref):
        def f(e, a, c):
            m = deref(a[0])
            order = env_order(e, m)
            if what == 'values':
                items = [m.vals[i] for i in order]
                v = VecV(items)
                return IterV('slice', vec=v, i=0, j=len(items), by_ref=by_ref)
            if what == 'keys':
                items = [m.keys[i] for i in order]
                return IterV('slice', vec=VecV(items), i=0, j=len(items), by_ref=by_ref)
            items = [Agg('tuple', None, [Ref(m.keys, i) if by_ref else m.keys[i], Ref(m.vals, i) if by_ref else m.vals[i]]) for i in order]
            return IterV('slice', vec=VecV(items), i=0, j=len(items), by_ref=False)
        return f
    for ty in ('HashMap', 'BTreeMap'):
        B[ty + '::iter'] = map_iter('pairs', True)
        B[ty + '::iter_mut'] = map_iter('pairs', True)
        B[ty + '::values'] = map_iter('values', True)
        B[ty + '::values_mut'] = map_iter('values', True)
        B[ty + '::keys'] = map_iter('keys', True)
        B[ty + '::into_keys'] = map_iter('keys', False)
    B['HashMap::into_values'] = map_iter('values', False)
    for ty in ('HashSet', 'BTreeSet'):
        B[ty + '::iter'] = map_iter('keys', True)
    E.map_into_iter = map_iter('pairs', False)
    E.set_into_iter = map_iter('keys', False)


    def set_op(kind):
        # difference / intersection / union of two sets: a lazy iterator over references, in the iteration
        # order of the first set (then of the second for union) — the environment's choice for hashed sets
        def f(e, a, c):
            m1, m2 = deref(a[0]), deref(a[1])
            out = []
            for i in env_order(e, m1):
                _, found = locate(e, m2, m1.keys[i])
                if kind == 'union' or (found == (kind == 'intersection')):
                    out.append(Ref(m1.keys, i))
            if kind == 'union':
                for i in env_order(e, m2):
                    _, found = locate(e, m1, m2.keys[i])
                    if not found:
                        out.append(Ref(m2.keys, i))
            return IterV('slice', vec=VecV(out), i=0, j=len(out), by_ref=False)
        return f
    for ty in ('HashSet', 'BTreeSet'):
        for kind in ('difference', 'intersection', 'union'):
            B['%s::%s' % (ty, kind)] = set_op(kind)

    def env_value(e, a, c):
        e.env_reads += 1
        return e.fresh_int('env_%d' % e.env_reads, 0, 2 ** 62)
    for k in ('Instant::now', 'SystemTime::now', 'RandomState::new', 'std::process::id', 'std::thread::current', 'random'):
        B[k] = env_value

    # process-global state (a `static` with interior mutability): its content when the function under analysis is
    # entered is whatever earlier calls in the same process left there — an environment value, not a function of the
    # request history (C19 "generated twice in one process")
    def proc_global(e, a, c):
        e.env_reads += 1
        return ok(PROC_GLOBAL)
    for k in ('Mutex::lock', 'RwLock::write', 'RwLock::read'):
        B[k] = proc_global
    B['Result::unwrap_or_else'] = lambda e, a, c: a[0].fields[0] if a[0].variant == 0 else e.call_value(a[1], [a[0].fields[0]])
    for ty in ('AtomicUsize', 'AtomicU64', 'AtomicU32', 'AtomicBool', 'AtomicIsize', 'AtomicI64'):
        for op in ('fetch_add', 'fetch_sub', 'load', 'swap', 'fetch_or'):
            B['%s::%s' % (ty, op)] = env_value

    def env_var(e, a, c):
        e.env_reads += 1
        return err('<env>') if e.branch(z3.Bool('env_var_unset_%d' % e.env_reads)) else ok('<env>')
    B['std::env::var'] = env_var
    B['env::var'] = env_var

    # ------------------------------------------------------------------ misc
    def mem_take(e, a, c):
        r = a[0]
        v = r.get()
        r.set(VecV() if isinstance(v, VecV) else 0)
        return v
    B['take'] = mem_take
    B['std::mem::take'] = mem_take

    def clone(e, a, c):
        return deep_clone(deref(a[0]))
    B['Clone::clone'] = clone

    def default(e, a, c):
        if 'Vec<' in c:
            return VecV()
        raise Unsupported('default ' + c)
    B['Default::default'] = default

    def into(e, a, c):
        m = re.match(r'^<(.+) as Into<(.+)>>::into$', c)
        if m:
            tgt = m.group(2)
            f = e.resolve('<%s as From<%s>>::from' % (tgt, m.group(1)))
            if f is not None:
                return e.run(f, a)
            if 'String' in tgt:
                return deref(a[0])
        raise Unsupported('into ' + c)
    B['Into::into'] = into

    def panic(e, a, c):
        raise Panic(c)
    for k in ('panic_fmt', 'core::panicking::panic_fmt', 'core::panicking::panic', 'core::panicking::assert_failed',
              'core::result::unwrap_failed', 'core::option::unwrap_failed', 'core::option::expect_failed',
              'core::panicking::panic_bounds_check', 'std::rt::begin_panic'):
        B[k] = panic


    # ------------------------------------------------------------------ boxes (transparent), merge_join_by, partition_map
    B['Box::new'] = lambda e, a, c: a[0]

    def merge_join_by(e, a, c):
        left = drain(e, into_iter(e, [a[0]], ''))
        right = drain(e, into_iter(e, [a[1]], ''))
        out = []
        i = j = 0
        while i < len(left) and j < len(right):
            lc, rc = [left[i]], [right[j]]
            o = e.call_value(a[2], [Ref(lc, 0), Ref(rc, 0)])
            o = o.variant
            if o < 0:
                out.append(Agg('EitherOrBoth', 1, [left[i]]))
                i += 1
            elif o > 0:
                out.append(Agg('EitherOrBoth', 2, [right[j]]))
                j += 1
            else:
                out.append(Agg('EitherOrBoth', 0, [left[i], right[j]]))
                i += 1
                j += 1
        out += [Agg('EitherOrBoth', 1, [x]) for x in left[i:]]
        out += [Agg('EitherOrBoth', 2, [x]) for x in right[j:]]
        v = VecV(out)
        return IterV('slice', vec=v, i=0, j=len(out), by_ref=False)
    B['Itertools::merge_join_by'] = merge_join_by

    def partition_map(e, a, c):
        l, r = [], []
        for x in drain(e, a[0]):
            y = e.call_value(a[1], [x])
            (l if y.variant == 0 else r).append(y.fields[0])
        return Agg('tuple', None, [VecV(l), VecV(r)])
    B['Itertools::partition_map'] = partition_map


    # ------------------------------------------------------------------ strings (python str, replaced in place through the reference)
    B['String::new'] = lambda e, a, c: ''

    def str_of(v):
        v = deref(v)
        return v if isinstance(v, str) else '<%r>' % (v,)

    def string_push_str(e, a, c):
        r = a[0]
        while isinstance(r, Ref) and isinstance(r.get(), Ref):
            r = r.get()
        r.set(str_of(r) + str_of(a[1]))
        return UNIT
    B['String::push_str'] = string_push_str
    B['String::is_empty'] = lambda e, a, c: len(str_of(a[0])) == 0
    B['str::is_empty'] = B['String::is_empty']
    B['String::as_str'] = lambda e, a, c: a[0]

    # the generic parameter's name is not known at MIR level: one constant per call-site type argument
    B['std::any::type_name'] = lambda e, a, c: 'T<' + (re.search(r'type_name::<(.*)>$', c).group(1) if re.search(r'type_name::<(.*)>$', c) else '?') + '>'
    B['type_name'] = B['std::any::type_name']
    opaque = lambda e, a, c: UNIT
    B['Arguments::new'] = opaque
    B['Arguments::from_str'] = opaque
    B['Argument::new_display'] = opaque
    B['Argument::new_debug'] = opaque
    B['std::fmt::format'] = lambda e, a, c: '<fmt>'
    B['must_use'] = lambda e, a, c: a[0]
    B['Formatter::write_fmt'] = lambda e, a, c: ok()
    B['Formatter::write_str'] = lambda e, a, c: ok()
    def host_query(e, a, c):
        # size_of / align_of of the unit type are the same on every host; anything else is a read of
        # the *host's* layout: a symbol of its own (C18)
        if c.endswith('::<()>'):
            return 1 if 'align_of' in c else 0
        if getattr(e, 'table_mode', False):
            # C18 table driver: the host's answer for the type the driver is currently registering / asking about
            k = ('align' if 'align_of' in c else 'size', getattr(e, 'type_tag', 'T'))
            if k not in e.host_syms:
                e.host_syms[k] = e.fresh_int('host_%s_%s' % k, 0 if k[0] == 'size' else 1, 2 ** 16)
            return e.host_syms[k]
        e.host_reads += 1
        if getattr(e, 'host_read_is_violation', False):
            e.verify(False, "C18: the builder or a strategy read the host's own size/alignment of a type (%s)" % c[:80])
        return e.fresh_int('host_%d' % e.host_reads, 0, 2 ** 16)
    for k in ('std::mem::align_of', 'std::mem::size_of', 'core::mem::align_of', 'core::mem::size_of', 'align_of', 'size_of',
              'std::mem::size_of_val', 'std::mem::align_of_val'):
        B[k] = host_query
    B['String::clone'] = lambda e, a, c: deref(a[0])
    B['ToOwned::to_owned'] = lambda e, a, c: deep_clone(deref(a[0]))
