"""C20 (replaying a definition into another builder through convert_record_definition) and C18
(layout depends on the resolver's answers only) drivers."""
import itertools

import z3

from engine import Agg, FnVal, MapV, Ref, UNIT, Unsupported, Panic, is_sym
import layout
from layout import GB, NB, did, Native, STRATS, ALIGNS, SMAX, Layout, some_, none


# ------------------------------------------------------------------------------------------ C20
def conv_tasks(V, adds_options, source_strats, target_kinds):
    tasks = []
    for ss in source_strats:
        for adds in adds_options:
            for tk in target_kinds:
                tasks.append(dict(kind='conv', src_strategy=ss, adds=list(adds), target=tk, V=V))
    return tasks


class Ctx:
    """Context handed (by &mut) to the three closures: a target builder and the id mapping the add
    closure observes."""

    def __init__(self, e, target):
        self.e = e
        self.target = target        # 'generic' or a strategy name for a native target
        if target == 'generic':
            b = e.call(GB + 'new', [])
            self.cell = [b]
            self.ref = Ref(self.cell, 0)
        else:
            self.nat = Native(e)
        self.mapping = {}           # source id -> target id, as seen by the add closure
        self.calls = []

    @property
    def inner(self):
        return self.cell[0] if self.target == 'generic' else self.nat.inner


def _deref(v):
    while isinstance(v, Ref):
        v = v.get()
    return v


def install_conv_closures(e):
    def c_add(e_, args, callee):
        ctx = _deref(args[0]).fields[0]
        datum = _deref(args[1])
        if ctx.target == 'generic':
            det = datum.fields[2]
            r = e_.call(GB + 'add_datum', [ctx.ref, datum.fields[1], layout.details(layout.USIZE_MAX, det.fields[1].fields[1], det.fields[1].fields[2], det.fields[1].fields[0])])
        else:
            r = e_.call(NB + 'copy_datum', [ctx.nat.ref, args[1]])
        if r.variant == 0:
            ctx.mapping.setdefault(datum.fields[0].fields[0], []).append(r.fields[0].fields[0])
        ctx.calls.append('add')
        return r
    def c_remove(e_, args, callee):
        ctx = _deref(args[0]).fields[0]
        ctx.calls.append('remove')
        if ctx.target == 'generic':
            return e_.call(GB + 'remove_datum', [ctx.ref, args[1]])
        return e_.call(NB + 'remove_datum', [ctx.nat.ref, args[1]])
    def c_close(e_, args, callee):
        ctx = _deref(args[0]).fields[0]
        ctx.calls.append('close')
        if ctx.target == 'generic':
            return e_.call(GB + 'close_record_variant_with', [ctx.ref, FnVal('__identity_strategy')])
        st = e_.choose(e_.fresh_int('tstrat%d' % len(ctx.calls), 0, 3), [0, 1, 2, 3]) if ctx.target == 'any' else list(STRATS).index(ctx.target)
        return e_.call(NB + 'close_record_variant_with', [ctx.nat.ref, FnVal(STRATS[list(STRATS)[st]])])
    e.builtins['__c20_add'] = c_add
    e.builtins['__c20_remove'] = c_remove
    e.builtins['__c20_close'] = c_close


def run_conv(e, t, opts):
    install_conv_closures(e)
    aligns = opts.get('aligns', ALIGNS)
    # ---- source definition: a bounded history through the native builder
    src = Native(e)
    n = 0
    for v in range(t['V']):
        variants = Layout.variants_of(src.inner)
        cur = [x.fields[0] for x in variants[-1].fields[1].items] if variants else []
        for d in cur:
            if e.branch(z3.Bool('rm_%d_%d' % (v, d))):
                src.remove(d)
        for j in range(t['adds'][v]):
            # the conversion logic does not look at sizes: a small concrete variety keeps the source
            # layout from multiplying paths (zero-size, odd and over-aligned shapes included)
            s, a = [(4, 4), (0, 1), (3, 1), (16, 16), (12, 4), (1, 1)][n % 6]
            # names: re-use of a removed datum's name is allowed and interesting
            reuse = e.branch(z3.Bool('reuse_%d' % n)) if (n > 0 and opts.get('reuse', True)) else False
            nm = 'f0' if reuse else 'f%d' % n
            r = src.add(nm, s, a)
            if r.variant != 0:
                nm = 'f%d' % n
                r = src.add(nm, s, a)
            # a transient datum: added and removed again before the close (consumes an identifier)
            if opts.get('transient', True) and e.branch(z3.Bool('undo_%d' % n)):
                src.remove(r.fields[0].fields[0])
            n += 1
        src.close(t['src_strategy'])
    sdef = e.call(GB + 'build', [src.inner])
    scell = [sdef]
    # ---- the conversion helper, real MIR
    ctx = Ctx(e, t['target'])
    cbox = [Agg('Context', None, [ctx])]
    e.panic_tag = 'C20: the conversion helper panics'
    r = e.call('convert_record_definition', [Ref(scell, 0), FnVal('__c20_add'), FnVal('__c20_remove'), FnVal('__c20_close'), Ref(cbox, 0)])
    e.panic_tag = ''
    e.verify(r.variant == 0, 'C20: replaying an accepted definition into a fresh builder failed')
    if r.variant != 0:
        return
    m = r.fields[0]
    svars = sdef.fields[1].items
    sdefs = sdef.fields[0].fields[0].items
    tvars = Layout.variants_of(ctx.inner)
    tdefs = Layout.defs_of(ctx.inner)
    keys = [k.fields[0] for k in m.keys]
    e.verify(keys == [sv.fields[0].fields[0] for sv in svars], 'C20: the returned map does not have one entry per source variant, in order')
    vals = [x.fields[0] for x in m.vals]
    e.verify(len(set(vals)) == len(vals), 'C20: two source variants are mapped to the same target variant')
    e.verify(len(tvars) == len(svars), 'C20: number of target variants differs from the number of source variants')
    for sid, tids in ctx.mapping.items():
        e.verify(len(tids) == 1, 'C20: source datum %d was added more than once to the target' % sid)
    for sv, tv_id in zip(svars, vals):
        if not (0 <= tv_id < len(tvars)):
            e.verify(False, 'C20: map points to a target variant that does not exist')
            continue
        tv = tvars[tv_id]
        sids = [x.fields[0] for x in sv.fields[1].items]
        tids = sorted(x.fields[0] for x in tv.fields[1].items)
        want = sorted(ctx.mapping.get(sid, [None])[0] for sid in sids if ctx.mapping.get(sid))
        e.verify(len(want) == len(sids) and tids == want,
                 'C20: target variant %d does not hold exactly the images of the data of source variant %d' % (tv_id, sv.fields[0].fields[0]))
        for sid in sids:
            if not ctx.mapping.get(sid):
                continue
            tid = ctx.mapping[sid][0]
            sd, td = sdefs[sid], tdefs[tid]
            e.verify(sd.fields[1] == td.fields[1], 'C20: name of datum %d changed in the replay' % sid)
            sti, tti = sd.fields[2].fields[1], td.fields[2].fields[1]
            same = e.eq(sti, tti)
            e.verify(same, 'C20: type information of datum %d changed in the replay' % sid)
            e.verify(sd.fields[2].fields[2] == td.fields[2].fields[2], 'C20: may-be-uninitialised flag of datum %d changed in the replay' % sid)


def conv_scenario(t, model):
    steps = []
    n = 0
    for v in range(t['V']):
        rm = sorted(int(k.split('_')[2]) for k, val in model.items() if k.startswith('rm_%d_' % v) and str(val) == 'True')
        adds = []
        for j in range(t['adds'][v]):
            adds.append(dict(s=[(4, 4), (0, 1), (3, 1), (16, 16), (12, 4), (1, 1)][n % 6][0], a=[(4, 4), (0, 1), (3, 1), (16, 16), (12, 4), (1, 1)][n % 6][1], reuse=str(model.get('reuse_%d' % n, 'False')) == 'True', undo=str(model.get('undo_%d' % n, 'False')) == 'True'))
            n += 1
        steps.append(dict(strategy=t['src_strategy'], rm=rm, add=adds))
    tstr = [int(v) for k, v in sorted(model.items()) if k.startswith('tstrat')]
    return dict(kind='conv', steps=steps, target=t['target'], target_strategies=tstr)


# ------------------------------------------------------------------------------------------ C18
ENTRY = ['add_datum', 'add_datum_allow_uninit', 'add_datum_override', 'add_dynamic_datum', 'copy_datum']


def resolver_tasks(strategies):
    """Every entry point under every strategy, followed by a second datum through the plain entry."""
    tasks = []
    for e1 in ENTRY:
        for st in strategies:
            tasks.append(dict(kind='resolver', entries=[e1, 'add_datum'], strategy=st, second_fixed=True))
    return tasks


def run_resolver(e, t, opts):
    """Two data enter through symbolically parameterised entry points with a resolver whose answers are
    symbolic; the stored type information must be the resolver's answer (or the override) and nothing
    may depend on the host (host reads are symbols of their own)."""
    aligns = opts.get('aligns', ALIGNS)
    e.host_read_is_violation = True
    nat = Native(e)
    expected = []
    for i, ent in enumerate(t['entries']):
        if i > 0 and t.get('second_fixed'):
            ra, rs = 4, 6
        else:
            ra = e.choose(e.fresh_int('ra%d' % i, 1, max(aligns)), aligns)
            rs = e.fresh_int('rs%d' % i, 0, opts.get('smax', SMAX))
        e.resolver_next = ('R%d' % i, rs, ra)
        name = 'f%d' % i
        if ent == 'add_datum':
            r = e.call(NB + 'add_datum', [nat.ref, name])
            exp = ('R%d' % i, rs, ra, False)
        elif ent == 'add_datum_allow_uninit':
            r = e.call(NB + 'add_datum_allow_uninit', [nat.ref, name])
            exp = ('R%d' % i, rs, ra, True)
        elif ent == 'add_datum_override':
            on = e.branch(z3.Bool('ov_name%d' % i))
            osz = e.branch(z3.Bool('ov_size%d' % i))
            oal = e.branch(z3.Bool('ov_align%d' % i))
            oun = e.choose(e.fresh_int('ov_uninit%d' % i, 0, 2), [0, 1, 2])
            os_ = e.fresh_int('os%d' % i, 0, opts.get('smax', SMAX))
            oa_ = e.choose(e.fresh_int('oa%d' % i, 1, max(aligns)), aligns)
            ov = Agg('DatumDefinitionOverride', None, [some_('O%d' % i) if on else none(), some_(os_) if osz else none(),
                                                       some_(oa_) if oal else none(), none() if oun == 0 else some_(oun == 2)])
            r = e.call(NB + 'add_datum_override', [nat.ref, name, ov])
            exp = ('O%d' % i if on else 'R%d' % i, os_ if osz else rs, oa_ if oal else ra, oun == 2)
        elif ent == 'add_dynamic_datum':
            un = e.branch(z3.Bool('dyn_uninit%d' % i))
            e.resolver_next_uninit = un
            r = e.call(NB + 'add_dynamic_datum', [nat.ref, name, 'dyn'])
            exp = ('R%d' % i, rs, ra, un)
        else:
            un = e.branch(z3.Bool('cp_uninit%d' % i))
            proto = Agg('DatumDefinition', None, [did(99), name, Agg('NativeDatumDetails', None, [17, Agg('TypeInfo', None, ['R%d' % i, rs, ra]), un])])
            r = e.call(NB + 'copy_datum', [nat.ref, Ref([proto], 0)])
            exp = ('R%d' % i, rs, ra, un)
        e.verify(r.variant == 0, 'C18: entry point %s rejected a fresh datum' % ent)
        expected.append(exp)
    nat.close(t['strategy'])
    defs = Layout.defs_of(nat.inner)
    e.verify(len(defs) == len(expected), 'C18: number of data differs')
    for i, (d, exp) in enumerate(zip(defs, expected)):
        det = d.fields[2]
        ti = det.fields[1]
        e.verify(ti.fields[0] == exp[0], 'C18: stored type name of datum %d (%s) is not the resolver\'s answer / the override' % (i, t['entries'][i]))
        e.verify(ti.fields[1] == exp[1], 'C18: stored size of datum %d (%s) is not the resolver\'s answer / the override' % (i, t['entries'][i]))
        e.verify(ti.fields[2] == exp[2], 'C18: stored alignment of datum %d (%s) is not the resolver\'s answer / the override' % (i, t['entries'][i]))
        e.verify(det.fields[2] == exp[3], 'C18: stored may-be-uninitialised flag of datum %d (%s) is wrong' % (i, t['entries'][i]))
    layout.check_env(e)
    e.verify(e.host_reads == 0, 'C18: the builder or a strategy read the host\'s own size/alignment of a type (%d reads)' % e.host_reads)
    # offsets: a function of the stored (= resolver) information — re-derived by the layout checks
    variants = Layout.variants_of(nat.inner)
    cur = [x.fields[0] for x in variants[-1].fields[1].items]
    info = {k: Layout.info(defs[k]) for k in cur}
    for k in cur:
        o, s, a = info[k]
        e.verify(layout._mod_ok(o, a), 'C02: datum %d is not aligned' % k)
    for x, y in itertools.combinations(cur, 2):
        ox, sx, _ = info[x]
        oy, sy, _ = info[y]
        e.verify(z3.Or(sx == 0, sy == 0, ox + sx <= oy, oy + sy <= ox), 'C01: data %d and %d overlap' % (x, y))
    # host independence of offsets: no host symbol may occur in them
    for k in cur:
        o = info[k][0]
        if is_sym(o) and 'host_' in o.sexpr():
            e.verify(False, 'C18: offset of datum %d depends on the host\'s size/alignment' % k)


def resolver_scenario(t, model):
    g = lambda k, d=0: model.get(k, d)
    items = []
    for i, ent in enumerate(t['entries']):
        items.append(dict(entry=ent, rs=int(g('rs%d' % i, 6)), ra=int(g('ra%d' % i, 4)),
                          ov_name=str(g('ov_name%d' % i, 'False')) == 'True', ov_size=str(g('ov_size%d' % i, 'False')) == 'True',
                          ov_align=str(g('ov_align%d' % i, 'False')) == 'True', ov_uninit=int(g('ov_uninit%d' % i, 0)),
                          os=int(g('os%d' % i)), oa=int(g('oa%d' % i, 1)),
                          uninit=(str(g('dyn_uninit%d' % i, 'False')) == 'True') or (str(g('cp_uninit%d' % i, 'False')) == 'True')))
    return dict(kind='resolver', strategy=t['strategy'], items=items)


# ------------------------------------------------------------------------------------------ C18 (type tables)
def table_tasks():
    regs = [
        [('A', False)], [('A', True)], [('A', False), ('B', True)], [('B', True), ('A', False)],
        [('A', False), ('B', True), ('C', False)], [('C', True), ('A', True), ('B', False)],
    ]
    return [dict(kind='table', regs=r, dup=d) for r in regs for d in (False, True)]


def install_table_hooks(e):
    def tn(e_, callee, args):
        if 'truc_dynamic_type_name' in callee:
            return _deref(args[0])
        return e_.type_tag
    e.dispatch_hooks.append(('truc_type_name', tn))
    e.dispatch_hooks.append(('truc_dynamic_type_name', tn))


def run_table(e, t, opts):
    """Second sentence of C18 without the JSON form: a table answers exactly what was registered (typed and
    dynamic lookups), agrees with the host resolver where it was produced, does not answer for types that
    were never registered, refuses a second registration. `size_of` / `align_of` of the registered types are
    host symbols; the type-name normalisation (C17) is the identity here."""
    install_table_hooks(e)
    e.table_mode = True
    e.host_syms = {}
    table = e.call('StaticTypeResolver::new', [])
    cell = [table]
    tref = Ref(cell, 0)
    for tag, un in t['regs']:
        e.type_tag = tag
        e.panic_tag = 'C18: registering a new type in a type table panics'
        e.call('StaticTypeResolver::add_type_allow_uninit' if un else 'StaticTypeResolver::add_type', [tref])
        e.panic_tag = ''
    host = Ref([Agg('HostTypeResolver', None, [])], 0)
    for tag, un in t['regs']:
        e.type_tag = tag
        e.panic_tag = 'C18: a type table does not answer for a type that was registered'
        ti = e.call('<StaticTypeResolver as TypeResolver>::type_info', [tref])
        dy = e.call('<StaticTypeResolver as TypeResolver>::dynamic_type_info', [tref, tag])
        e.panic_tag = ''
        hi = e.call('<HostTypeResolver as TypeResolver>::type_info', [host])
        hs, ha = e.host_syms[('size', tag)], e.host_syms[('align', tag)]
        e.verify(ti.fields[0] == tag, 'C18: a type table answers another name than the registered one')
        e.verify(ti.fields[1] == hs, 'C18: the size a type table answers is not the one of the type where the table was produced (%s)' % tag)
        e.verify(ti.fields[2] == ha, 'C18: the alignment a type table answers is not the one of the type where the table was produced (%s)' % tag)
        e.verify(e.eq(ti, hi), 'C18: a type table disagrees with the host resolver on the platform where it was produced (%s)' % tag)
        e.verify(e.eq(dy.fields[0], ti), 'C18: dynamic and typed lookups of a type table disagree (%s)' % tag)
        e.verify(dy.fields[1] == un, 'C18: a type table answers a wrong may-be-uninitialised flag (%s)' % tag)
    # never registered: no answer
    e.flush_checks()
    e.type_tag = 'UNREGISTERED'
    for what, call in (('typed', lambda: e.call('<StaticTypeResolver as TypeResolver>::type_info', [tref])),
                       ('dynamic', lambda: e.call('<StaticTypeResolver as TypeResolver>::dynamic_type_info', [tref, 'UNREGISTERED']))):
        try:
            call()
            answered = True
        except Panic:
            answered = False
        e.verify(not answered, 'C18: a type table answers a %s lookup for a type that was never registered' % what)
    if t.get('dup'):
        tag, un = t['regs'][0]
        e.type_tag = tag
        for fn in ('StaticTypeResolver::add_type', 'StaticTypeResolver::add_type_allow_uninit'):
            try:
                e.call(fn, [tref])
                twice = True
            except Panic:
                twice = False
            e.verify(not twice, 'C18: registering a type twice in a type table is accepted (the table no longer answers exactly what was registered)')
        # the refused registrations must have left the table as it was
        e.flush_checks()
        for tag, un in t['regs']:
            e.type_tag = tag
            e.panic_tag = 'C18: a type table does not answer for a registered type after a refused second registration'
            ti = e.call('<StaticTypeResolver as TypeResolver>::type_info', [tref])
            dy = e.call('<StaticTypeResolver as TypeResolver>::dynamic_type_info', [tref, tag])
            e.panic_tag = ''
            hs, ha = e.host_syms[('size', tag)], e.host_syms[('align', tag)]
            e.verify(z3.And(ti.fields[1] == hs, ti.fields[2] == ha) if not isinstance(ti.fields[1] == hs, bool) else (ti.fields[1] == hs and ti.fields[2] == ha),
                     'C18: a type table answers differently after a refused second registration (%s)' % tag)
            e.verify(e.eq(dy.fields[0], ti), 'C18: a type table answers differently after a refused second registration (%s)' % tag)
            e.verify(dy.fields[1] == un, 'C18: a type table answers differently after a refused second registration (%s)' % tag)
