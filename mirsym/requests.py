"""C12: request sequences against the real builders (generic with the dummy strategies, native with
the shipped ones) compared with a reference model of the property's statement.

A task fixes the *kinds* of the L requests (add / remove / close); names (index into an alphabet)
and datum ids are symbolic and get forked by the comparisons of the real code."""
import itertools

import z3

from engine import Agg, FnVal, Ref, UNIT, Unsupported, Panic
import layout
from layout import GB, NB, did, Native, STRATS

ALPHABET = ['a', 'b', 'c']
GEN_STRATS = {'append_data': 'append_data', 'append_data_reverse': 'append_data_reverse'}


class Model:
    """The statement of C12 as a 30-line state machine."""

    def __init__(self):
        self.names = []      # id -> name
        self.variants = []   # list of id lists
        self.to_add = []
        self.to_rm = []

    def current(self):
        last = self.variants[-1] if self.variants else []
        return [d for d in last if d not in self.to_rm] + list(self.to_add)

    def add(self, name):
        if name in [self.names[d] for d in self.current()]:
            return None
        self.names.append(name)
        d = len(self.names) - 1
        self.to_add.append(d)
        return d

    def remove(self, d):
        last = self.variants[-1] if self.variants else []
        if d in last:
            if d in self.to_rm:
                return False
            self.to_rm.append(d)
            return True
        if d in self.to_add:
            self.to_add.remove(d)
            return True
        return False

    def close(self, reverse=False):
        if self.variants and not self.to_add and not self.to_rm:
            return len(self.variants) - 1
        last = self.variants[-1] if self.variants else []
        adds = list(reversed(self.to_add)) if reverse else list(self.to_add)
        self.variants.append([d for d in last if d not in self.to_rm] + adds)
        self.to_add, self.to_rm = [], []
        return len(self.variants) - 1

    def observe(self):
        cur = self.current()
        by_name = {n: next((d for d in cur if self.names[d] == n), None) for n in ALPHABET}
        return dict(current=cur, by_name=by_name, nvariants=len(self.variants),
                    last=sorted(self.variants[-1]) if self.variants else None)


def req_tasks(builder, L, strategies):
    tasks = []
    for kinds in itertools.product('arc', repeat=L):
        # prune sequences that cannot do anything interesting: must contain an add
        if 'a' not in kinds:
            continue
        for st in strategies:
            tasks.append(dict(kind='req', builder=builder, kinds=''.join(kinds), strategy=st))
    return tasks


def canonical_prefixes():
    """Concrete request prefixes reaching the canonical builder states of REQ: optional stale datum
    (named 'a', removed in an earlier variant), 0..3 live data (re-using the stale name), an ordered
    set of <= 2 pending removals, <= 2 pending additions."""
    out = []
    for stale in (False, True):
        for n in range(4):
            for closed in ((True,) if (n > 0 or stale) else (False, True)):
                pre = []
                nid = 0
                if stale:
                    pre += [('a', 'a'), ('c',), ('r', 0), ('c',)]
                    nid = 1
                live = []
                for i in range(n):
                    pre.append(('a', ALPHABET[i]))
                    live.append(nid)
                    nid += 1
                if closed and (n > 0 or not stale):
                    pre.append(('c',))
                orders = [()]
                if closed and n > 0:
                    for k in (1, 2):
                        orders += list(itertools.permutations(live, k))
                for order in orders:
                    free = [x for x in ALPHABET if x not in ALPHABET[:n]]
                    for pa in range(0, min(2, len(free)) + 1):
                        p2 = list(pre) + [('r', d) for d in order] + [('a', free[j]) for j in range(pa)]
                        out.append(p2)
    return out


def req_state_tasks(builder, strategies, sym_len=1):
    tasks = []
    for pre in canonical_prefixes():
        for kinds in itertools.product('arc', repeat=sym_len):
            for st in strategies:
                tasks.append(dict(kind='req', builder=builder, prefix=pre, kinds=''.join(kinds), strategy=st))
    return tasks


def _drain_ids(e, it):
    out = []
    while True:
        x = e.it_next(e, it)
        if x.variant == 0:
            return out
        v = x.fields[0]
        while isinstance(v, Ref):
            v = v.get()
        out.append(v.fields[0])


class Real:
    def __init__(self, e, builder, strategy):
        self.e = e
        self.kind = builder
        self.strategy = strategy
        if builder == 'generic':
            b = e.call(GB + 'new', [])
            self.cell = [b]
            self.ref = Ref(self.cell, 0)
        else:
            self.nat = Native(e)

    @property
    def inner(self):
        return self.cell[0] if self.kind == 'generic' else self.nat.inner

    @property
    def iref(self):
        return self.ref if self.kind == 'generic' else Ref(self.nat.cell[0].fields, self.nat.idx)

    def add(self, name):
        if self.kind == 'generic':
            return self.e.call(GB + 'add_datum', [self.ref, name, UNIT])
        return self.nat.add(name, 4, 4)

    def remove(self, d):
        if self.kind == 'generic':
            return self.e.call(GB + 'remove_datum', [self.ref, did(d)])
        return self.nat.remove(d)

    def close(self):
        if self.kind == 'generic':
            return self.e.call(GB + 'close_record_variant_with', [self.ref, FnVal(GEN_STRATS[self.strategy])])
        return self.nat.close(self.strategy)

    def observe(self):
        e = self.e
        prefix = GB if self.kind == 'generic' else NB
        ref = self.ref if self.kind == 'generic' else self.nat.ref
        cur = _drain_ids(e, e.call(prefix + 'get_current_data', [ref]))
        by_name = {}
        for n in ALPHABET:
            r = e.call(prefix + 'get_current_datum_definition_by_name', [ref, n])
            if r.variant == 0:
                by_name[n] = None
            else:
                d = r.fields[0]
                while isinstance(d, Ref):
                    d = d.get()
                by_name[n] = d.fields[0].fields[0]
        variants = layout.Layout.variants_of(self.inner)
        last = sorted(x.fields[0] for x in variants[-1].fields[1].items) if variants else None
        lastseq = [x.fields[0] for x in variants[-1].fields[1].items] if variants else None
        return dict(current=cur, by_name=by_name, nvariants=len(variants), last=last, lastseq=lastseq)


def run_req(e, t, opts):
    real = Real(e, t['builder'], t['strategy'])
    model = Model()
    nadds = 0
    trace = []
    steps = [(k, arg) for (k, *rest) in (t.get('prefix') or []) for arg in [rest[0] if rest else None]]
    steps += [(k, None) for k in t['kinds']]
    npre = len(t.get('prefix') or [])
    for i, (k, arg) in enumerate(steps):
        before_m = model.observe()
        if k == 'a':
            if arg is not None:
                name = arg
            else:
                ni = e.choose(e.fresh_int('name%d' % (i - npre), 0, len(ALPHABET) - 1), list(range(len(ALPHABET))))
                name = ALPHABET[ni]
            r = real.add(name)
            exp = model.add(name)
            trace.append(('add', name))
            if exp is None:
                e.verify(r.variant == 1, 'C12: adding a name that already exists in the current variant was accepted (step %d)' % i)
            else:
                e.verify(r.variant == 0, 'C12: adding a fresh name was rejected (step %d)' % i)
                if r.variant == 0:
                    e.verify(r.fields[0].fields[0] == exp, 'C12: a datum identifier was reused or skipped (step %d)' % i)
            nadds += 1 if exp is not None else 0
            failed = exp is None
        elif k == 'r':
            if arg is not None:
                ids = arg
                r = real.remove(ids)
                d = arg
            else:
                ids = e.fresh_int('id%d' % (i - npre), 0, len(model.names) + 1)
                r = real.remove(ids)
                d = e.choose(ids, list(range(len(model.names) + 2)))
            exp = model.remove(d)
            trace.append(('remove', d))
            e.verify((r.variant == 0) == exp, 'C12: removal of datum %d answered %s, expected %s (step %d)' %
                     (d, 'Ok' if r.variant == 0 else 'Err', 'Ok' if exp else 'Err', i))
            failed = not exp
        else:
            r = real.close()
            exp = model.close(reverse=(t['strategy'] == 'append_data_reverse' and t['builder'] == 'generic'))
            trace.append(('close',))
            e.verify(r.fields[0] == exp, 'C12: close returned variant %s, expected %s (step %d)' % (r.fields[0], exp, i))
            failed = False
        obs = real.observe()
        m = model.observe()
        same_cur = (obs['current'] == m['current']) if t['builder'] == 'generic' else (sorted(obs['current']) == sorted(m['current']))
        e.verify(same_cur, 'C12: current data differ from predecessor minus removals plus additions (step %d: %s vs %s)' % (i, obs['current'], m['current']))
        e.verify(obs['by_name'] == m['by_name'], 'C12: lookup by name disagrees (step %d)' % i)
        e.verify(obs['nvariants'] == m['nvariants'], 'C12: number of variants is wrong (step %d)' % i)
        e.verify(obs['last'] == m['last'], 'C12: closed variant is not predecessor minus removals plus additions (step %d)' % i)
        if t['builder'] == 'generic' and k == 'c' and obs['lastseq'] is not None:
            e.verify(obs['lastseq'] == model.variants[-1], 'C12: generic variant order differs (step %d)' % i)
        if failed:
            e.verify(m == before_m, 'model: a rejected request changed the model')
            e.verify(sorted(obs['current']) == sorted(before_m['current']) and obs['by_name'] == before_m['by_name'] and obs['nvariants'] == before_m['nvariants'],
                     'C12: a rejected request changed the observable state (step %d)' % i)
    # finishing: allowed only when nothing is pending
    pending = bool(model.to_add or model.to_rm)
    e.flush_checks()
    try:
        saved = e.panic_is_violation
        e.call(GB + 'build', [real.inner])
        built = True
    except Panic:
        built = False
    e.verify(built == (not pending), 'C12: build() with unclosed changes was %s' % ('accepted' if built else 'rejected although nothing was pending'))
    e.req_trace = trace


def req_scenario(t, model):
    """Concrete request list from a solver model."""
    reqs = []
    for st in (t.get('prefix') or []):
        if st[0] == 'a':
            reqs.append(dict(op='add', name=st[1]))
        elif st[0] == 'r':
            reqs.append(dict(op='remove', id=st[1]))
        else:
            reqs.append(dict(op='close'))
    for i, k in enumerate(t['kinds']):
        if k == 'a':
            reqs.append(dict(op='add', name=ALPHABET[int(model.get('name%d' % i, 0))]))
        elif k == 'r':
            reqs.append(dict(op='remove', id=int(model.get('id%d' % i, 0))))
        else:
            reqs.append(dict(op='close'))
    # expected observations from the reference model
    m = Model()
    exp = []
    for r in reqs:
        if r['op'] == 'add':
            res = m.add(r['name'])
            out = 'err' if res is None else 'ok:%d' % res
        elif r['op'] == 'remove':
            out = 'ok' if m.remove(r['id']) else 'err'
        else:
            out = 'v:%d' % m.close(reverse=(t['strategy'] == 'append_data_reverse' and t['builder'] == 'generic'))
        o = m.observe()
        exp.append(dict(result=out, current=o['current'], by_name={k: (-1 if v is None else v) for k, v in o['by_name'].items()},
                        nvariants=o['nvariants'], last=o['last'] if o['last'] is not None else []))
    pending = bool(m.to_add or m.to_rm)
    return dict(kind='req', builder=t['builder'], strategy=t['strategy'], requests=reqs, expected=exp, build_ok=not pending)
