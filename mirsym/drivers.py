"""Registry of driver kinds beyond the layout ones."""
import requests as _req

DRIVERS = {
    'req': _req.run_req,
}
try:
    import replaydef as _conv
    DRIVERS['conv'] = _conv.run_conv
    DRIVERS['resolver'] = _conv.run_resolver
    DRIVERS['table'] = _conv.run_table
except ImportError:
    pass
try:
    import genev as _genev
    DRIVERS['genev'] = _genev.run_genev
except ImportError:
    pass
