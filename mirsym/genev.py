"""GENEV driver (C19, generator side): the real `GeneratorConfig::default_with_custom_generators` and
`generate_variant` are executed on a definition built by a symbolic history. The fragment generators
themselves (text emission through the `codegen` crate) are not encoded: every dynamic call
`<dyn FragmentGenerator>::{imports,generate}` is an *event* recording which generator was invoked and which
data / removed data / added data lists (in order) it was handed. Determinism claim decided here: for one
request history the event trace does not depend on the environment (hash iteration order, addresses,
clock): paths that consulted the environment are compared pairwise under the same inputs (layout.env_pairs).
"""
import itertools

import z3

import layout
from layout import Layout, Native, ALIGNS
from engine import Agg, Ref, VecV, Unsupported, none

DYN = '<dyn FragmentGenerator as FragmentGenerator>::'


def genev_tasks(strategies, adds_options):
    tasks = []
    for adds in adds_options:
        for strats in itertools.product(strategies, repeat=len(adds)):
            tasks.append(dict(kind='genev', strats=list(strats), adds=list(adds)))
    return tasks


def _deref(v):
    while isinstance(v, Ref):
        v = v.get()
    return v


def _ids(v):
    out = []
    for x in _deref(v).items:
        d = _deref(x)
        out.append(d.fields[0].fields[0])
    return out


def _show(v):
    v = _deref(v)
    if isinstance(v, Agg):
        if v.name == 'FmtArg':
            return _show(v.fields[0])
        return '%s(%s)' % (v.name, ','.join(_show(f) for f in v.fields))
    if isinstance(v, VecV):
        return '[%s]' % ','.join(_show(f) for f in v.items)
    return str(v)


def _fmt_items(v):
    v = _deref(v)
    if isinstance(v, Agg) and v.name == 'FmtArgs':
        inner = _deref(v.fields[0])
        return inner.items if isinstance(inner, VecV) else [inner]
    return [v]


def _fmt_template(v):
    v = _deref(v)
    if isinstance(v, Agg) and v.name == 'FmtArgs' and len(v.fields) > 1:
        return str(_deref(v.fields[1]))
    return ''


def install(e):
    if getattr(e, 'genev_installed', False):
        return
    e.genev_installed = True
    e.events = []
    e.dyn_self = []

    def hook(e_, callee, args):
        method = callee.split('::')[-1]
        g = _deref(args[0])
        gname = g.name if isinstance(g, Agg) else repr(g)
        if method in ('imports', 'generate'):
            if method == 'generate':
                specs = _deref(args[1])
                rec = _deref(specs.fields[0])
                lists = [f for f in rec.fields if isinstance(_deref(f), VecV)]
                if len(lists) < 3:
                    raise Unsupported('RecordSpec without its three data lists')
                vid = _deref(rec.fields[1]).fields[0].fields[0]
                e_.events.append(('generate', gname, vid, tuple(_ids(lists[0])), tuple(_ids(lists[1])), tuple(_ids(lists[2])),
                                  _deref(specs.fields[1]).variant))
            else:
                e_.events.append(('imports', gname))
            return Agg('tuple', None, [])
        # another method of the trait (a changed tree may have added one): the implementation for the
        # concrete type if the crate has one, the trait's default body otherwise
        for name in ('<%s as FragmentGenerator>::%s' % (gname, method), 'FragmentGenerator::%s' % method):
            f = e_.resolve(name)
            if f is not None:
                e_.dyn_self.append(gname)
                try:
                    return e_.run(f, list(args))
                finally:
                    e_.dyn_self.pop()
        raise Unsupported('dynamic call %s on %s' % (callee, gname))
    e.dispatch_hooks.append((DYN, hook))

    def codegen_hook(e_, callee, args):
        # the `codegen` crate (text emission) is not encoded: each call is an event carrying its arguments
        short = '::'.join(callee.split('<')[0].split('::')[-2:]) if not callee.startswith('<') else callee[:60]
        vals = tuple(_show(a) for a in args[1:]) if args and isinstance(args[0], Ref) else tuple(_show(a) for a in args)
        e_.events.append(('codegen', short, vals))
        if short.endswith('::new') or not args:
            return Agg(short.split('::')[0], None, [])
        if short.endswith('::to_string'):
            return '<code>'
        return args[0] if isinstance(args[0], Ref) else Agg('tuple', None, [])
    e.dispatch_hooks.append(('codegen::', codegen_hook))

    # format!: keep the displayed values (so that the order of emitted lines is observable)
    e.builtins['Argument::new_display'] = lambda e_, a, c: Agg('FmtArg', None, [a[0]])
    e.builtins['Argument::new_debug'] = e.builtins['Argument::new_display']
    e.builtins['Arguments::new'] = lambda e_, a, c: Agg('FmtArgs', None, [a[1] if len(a) > 1 else VecV([]), a[0]])
    e.builtins['std::fmt::format'] = lambda e_, a, c: 'fmt(%s|%s)' % (_fmt_template(a[0]), ','.join(_show(x) for x in _fmt_items(a[0])))
    e._bcache.clear()

    def type_name_self(e_, callee, args):
        if '<Self>' in callee and e_.dyn_self:
            return 'verif::' + e_.dyn_self[-1]
        return NotImplemented
    e.dispatch_hooks.append(('type_name::<Self>', type_name_self))


def run_genev(e, t, opts):
    install(e)
    e.events = []
    aligns = opts.get('genev_aligns', [1, 4])
    smax = opts.get('genev_smax', 2)
    nat = Native(e)
    n = 0
    for v, st in enumerate(t['strats']):
        variants = Layout.variants_of(nat.inner)
        cur = [x.fields[0] for x in variants[-1].fields[1].items] if variants else []
        for d in cur:
            if e.branch(z3.Bool('rm_%d_%d' % (v, d))):
                nat.remove(d)
        for j in range(t['adds'][v]):
            a = e.choose(e.fresh_int('a%d' % n, 1, max(aligns)), aligns)
            s = e.fresh_int('s%d' % n, 0, smax)
            r = nat.add('f%d' % n, s, a, tname='t%d' % (n % 2))
            # add-then-remove before the close: the datum stays in the collection, never placed
            if opts.get('pending', False) and e.branch(z3.Bool('undo_%d' % n)):
                nat.remove(r.fields[0].fields[0])
            n += 1
        nat.close(st)
    defn = e.call(layout.GB + 'build', [nat.inner])
    dcell = [defn]
    dref = Ref(dcell, 0)
    custom = VecV([Agg('VerifCustomA', None, []), Agg('VerifCustomB', None, [])])
    saved = e.panic_tag
    e.panic_tag = 'C13: building the generator configuration panics'
    cfg = [e.call('GeneratorConfig::default_with_custom_generators', [custom])]
    e.panic_tag = 'C13: generate() panics'
    e.call('generate', [dref, Ref(cfg, 0)])
    e.panic_tag = saved
    gens = [ev for ev in e.events if ev[0] == 'generate']
    e.verify(len(gens) >= 1, 'harness: no fragment generator was invoked (vacuity guard)')
    if e.env_reads:
        if not hasattr(e, 'path_records'):
            e.path_records = []
        e.path_records.append(dict(conds=list(e.solver.assertions()), outs=[], order=list(e.events)))


def genev_scenario(t, model):
    sc = layout.model_to_hist_scenario(dict(strats=t['strats'], adds=t['adds']), model)
    sc['generate'] = True
    return sc
