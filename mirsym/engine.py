"""mirsym: path-forking symbolic interpreter for rustc stable-MIR text.

Paths are explored depth-first by re-execution with a recorded decision prefix; integer values are
z3 Int terms (range-constrained), containers have concrete shapes per path; feasibility of both
sides of every symbolic branch is decided by z3 (with a model-based shortcut for the side the
current model already witnesses)."""
import copy
import re
import time
import z3
import mirparse as mp
from mirparse import (Local, Deref, Field, Downcast, Index, Move, Copy, Const, FnItem, RefOf, BinOp, UnOp, Cast,
                      Aggregate, Tuple, Array)

U64 = 2 ** 64


class Panic(Exception):
    pass


class Infeasible(Exception):
    pass


class Unsupported(Exception):
    pass


class SplitHere(Exception):
    """Raised (only in splitter mode) when a path reaches the split depth."""
    pass


class Violation(Exception):
    def __init__(self, msg, model):
        super().__init__(msg)
        self.msg = msg
        self.model = model


class Agg:
    __slots__ = ('name', 'variant', 'fields')

    def __init__(self, name, variant, fields):
        self.name = name
        self.variant = variant
        self.fields = fields

    def __repr__(self):
        v = '' if self.variant is None else '#%s' % self.variant
        return '%s%s(%s)' % (self.name, v, ', '.join(map(repr, self.fields)))


class VecV:
    __slots__ = ('items',)

    def __init__(self, items=None):
        self.items = items if items is not None else []

    def __repr__(self):
        return 'Vec%r' % (self.items,)


class MapV:
    __slots__ = ('keys', 'vals', 'hashed')

    def __init__(self):
        self.keys = []
        self.vals = []
        self.hashed = False


class Ref:
    __slots__ = ('c', 'k')

    def __init__(self, c, k):
        self.c = c
        self.k = k

    def get(self):
        return self.c[self.k]

    def set(self, v):
        self.c[self.k] = v

    def __repr__(self):
        return '&%r' % (self.get(),)


class FnVal:
    __slots__ = ('name',)

    def __init__(self, name):
        self.name = name

    def __repr__(self):
        return 'fn(%s)' % self.name


class IterV:
    """Lazy iterator value; kind-specific state in attrs."""

    def __init__(self, kind, **kw):
        self.kind = kind
        self.__dict__.update(kw)


UNIT = Agg('tuple', None, [])


def some(v):
    return Agg('Option', 1, [v])


NONE = None  # created fresh each time


def none():
    return Agg('Option', 0, [])


def is_sym(v):
    return isinstance(v, z3.ExprRef)


def clone_val(v):
    """Copy semantics for Copy-type aggregates (shallow structure copy)."""
    if isinstance(v, Agg):
        return Agg(v.name, v.variant, [clone_val(f) for f in v.fields])
    return v


def deep_clone(v):
    if isinstance(v, IterV):
        n = IterV(v.kind)
        for k, x in v.__dict__.items():
            n.__dict__[k] = deep_clone(x) if isinstance(x, IterV) else x
        return n
    if isinstance(v, Agg):
        return Agg(v.name, v.variant, [deep_clone(f) for f in v.fields])
    if isinstance(v, VecV):
        return VecV([deep_clone(f) for f in v.items])
    return v


ENUM_VARIANTS = {
    'Option': {'None': 0, 'Some': 1},
    'Result': {'Ok': 0, 'Err': 1},
    'Ordering': {'Less': -1, 'Equal': 0, 'Greater': 1},
    'ControlFlow': {'Continue': 0, 'Break': 1},
    'EitherOrBoth': {'Both': 0, 'Left': 1, 'Right': 2},
    'Either': {'Left': 0, 'Right': 1},
}


MODSEG = re.compile(r'(?<![\w])[a-z_][a-z0-9_]*::(?=[A-Za-z_<{\[])')


def canon(name):
    k = mp.strip_generics(name)
    while True:
        k2 = MODSEG.sub('', k)
        if k2 == k:
            return k
        k = k2


class Engine:
    def __init__(self, funcs, user_enums=None):
        self.funcs = funcs
        self.by_key = {}
        for name, f in funcs.items():
            self.by_key.setdefault(canon(name), []).append(f)
        self.closure_fn = {}
        for name, f in funcs.items():
            if '{closure#' in name:
                t = f.local_types.get(1, '')
                m = re.search(r'\{closure@[^}]*\}', t)
                if m:
                    self.closure_fn[m.group(0)] = f
        self.enums = dict(ENUM_VARIANTS)
        if user_enums:
            self.enums.update(user_enums)
        import os as _os
        _logic = _os.environ.get('MIRSYM_LOGIC')
        self.solver = z3.SolverFor(_logic) if _logic else z3.Solver()
        self.stats = dict(paths=0, feas_queries=0, assert_queries=0, stmts=0, solver_s=0.0, infeasible=0, panics=0)
        self.builtins = {}
        self._rcache = {}
        self.merge_fns = set()
        self._bcache = {}
        self.symcount = 0
        self.panic_is_violation = True
        self.step_budget = 2_000_000
        self.panic_tag = ''
        self.split_depth = None
        self.split_prefixes = []
        self.time_slice = None
        self.leftover = []
        self.merge_cache = {}
        self.fixed_values = None
        self.dispatch_hooks = []
        self.merge_ctx = ()
        self.merge_seq = 0
        self.model = None
        self.pending_checks = []
        self.path_steps = 0
        self.host_reads = 0
        self.env_reads = 0
        import builtins_std
        builtins_std.register(self)

    # ------------------------------------------------------------ path control
    def explore(self, driver, max_paths=10 ** 9, start=None, split_depth=None):
        """Depth-first exploration. `start`: decision prefix to start from (sub-task).
        `split_depth`: splitter mode — paths are cut when they reach that many decisions and the
        prefixes are returned in self.split_prefixes instead of being explored."""
        work = [list(start) if start else []]
        results = []
        self.split_depth = split_depth
        self.split_prefixes = []
        self.leftover = work
        t_start = time.time()
        while work and self.stats['paths'] < max_paths and (self.time_slice is None or time.time() - t_start < self.time_slice):
            prefix = work.pop()
            self.prefix = prefix
            self.trace = []
            self.conds = []
            self.pending = work
            self.solver.push()
            self.syms = {}
            self.symcount = 0
            self.model = None
            self.pending_checks = []
            self.path_steps = 0
            self.merge_seq = 0
            self.merge_ctx = ()
            self.stats['env_reads_total'] = self.stats.get('env_reads_total', 0) + self.env_reads
            self.stats['host_reads_total'] = self.stats.get('host_reads_total', 0) + self.host_reads
            self.env_reads = 0
            self.host_reads = 0
            try:
                driver(self)
                self.flush_checks()
                self.stats['paths'] += 1
            except Infeasible:
                self.stats['infeasible'] += 1
            except SplitHere:
                self.split_prefixes.append(list(self.trace))
            except Panic as p:
                self.stats['paths'] += 1
                self.stats['panics'] += 1
                if self.panic_is_violation:
                    self.solver.check()
                    results.append(('panic', (self.panic_tag + ' | ' if self.panic_tag else 'PANIC: ') + str(p)[:200], self.model_dict()))
            except Violation as v:
                self.stats['paths'] += 1
                results.append(('violation', v.msg, v.model))
            finally:
                self.solver.pop()
        return results

    def check(self, *extra):
        t = time.time()
        r = self.solver.check(*extra)
        self.stats['solver_s'] += time.time() - t
        self.stats['queries'] = self.stats.get('queries', 0) + 1
        if r == z3.unknown:
            raise Unsupported('solver answered unknown: ' + self.solver.reason_unknown())
        return r

    def _model_says(self, cond):
        """Truth value of cond under the current witness model (None if there is no valid model)."""
        if self.model is None:
            return None
        try:
            v = self.model.eval(cond, model_completion=True)
        except z3.Z3Exception:
            return None
        if z3.is_true(v):
            return True
        if z3.is_false(v):
            return False
        return None

    def _add(self, c):
        self.solver.add(c)
        if self.model is not None and self._model_says(c) is not True:
            self.model = None

    def feasible(self, cond):
        """Is path ∧ cond satisfiable? Keeps the witness model."""
        if self._model_says(cond) is True:
            self.stats['model_hits'] = self.stats.get('model_hits', 0) + 1
            return True
        self.stats['feas_queries'] += 1
        self.solver.push()
        self.solver.add(cond)
        r = self.check()
        if r == z3.sat:
            self.model = self.solver.model()
        self.solver.pop()
        return r == z3.sat

    def branch(self, cond):
        """Return a concrete bool for `cond`, forking if both sides feasible."""
        if isinstance(cond, bool):
            return cond
        cond = z3.simplify(cond)
        if z3.is_true(cond):
            return True
        if z3.is_false(cond):
            return False
        n = len(self.trace)
        if self.split_depth is not None and n >= self.split_depth and n >= len(self.prefix):
            raise SplitHere()
        if n < len(self.prefix):
            d = self.prefix[n]
            self.trace.append(d)
            c = cond if d else z3.Not(cond)
            self.conds.append(c)
            self._add(c)
            return d
        ms = self._model_says(cond)
        if ms is True:
            t_ok = True
            f_ok = self.feasible(z3.Not(cond))
            # keep a model that witnesses the side we are going to take (True first)
            if f_ok:
                self.model = None
        elif ms is False:
            f_ok = True
            t_ok = self.feasible(cond)
        else:
            t_ok = self.feasible(cond)
            f_ok = self.feasible(z3.Not(cond))
            if t_ok and f_ok:
                self.model = None
        if t_ok and f_ok:
            self.pending.append(self.trace + [False])
            self.trace.append(True)
            self.conds.append(cond)
            self._add(cond)
            return True
        if t_ok:
            self.trace.append(True)
            self.conds.append(cond)
            self._add(cond)
            return True
        if f_ok:
            self.trace.append(False)
            self.conds.append(z3.Not(cond))
            self._add(z3.Not(cond))
            return False
        raise Infeasible()

    def choose(self, val, domain):
        """Concretise a symbolic int over a finite domain by forking."""
        if not is_sym(val):
            return val
        for d in domain[:-1]:
            if self.branch(val == d):
                return d
        self.assume(val == domain[-1])
        return domain[-1]

    CONC = [1, 2, 4, 8, 16, 32, 64] + [v for v in range(0, 65) if v not in (1, 2, 4, 8, 16, 32, 64)]

    def concretise(self, val, what='value'):
        """Concretise a symbolic int by forking over its feasible values (fixed candidate order, so that
        re-executions agree); more than the candidates 0..64 is unsupported."""
        if not is_sym(val):
            return val
        for d in self.CONC:
            if self.branch(val == d):
                return d
        raise Unsupported('%s: symbolic value outside 0..64 (concretise first)' % what)

    def mul_operands(self, a, b):
        """Operands of a product with at most one of them symbolic: an operand the path already pins to one
        value (e.g. an alignment concretised by an earlier division) is replaced by that value; otherwise
        fork over the second operand's values."""
        if not (is_sym(a) and is_sym(b)):
            return a, b
        c = self.implied_const(b)
        if c is not None:
            return a, c
        c = self.implied_const(a)
        if c is not None:
            return c, b
        try:
            return a, self.concretise(b, 'symbolic*symbolic')
        except Unsupported:
            raise Unsupported('symbolic*symbolic')

    def implied_const(self, val):
        """The single value `val` can take on this path, or None."""
        if not is_sym(val):
            return val
        if self.model is None:
            if self.check() != z3.sat:
                raise Infeasible()
            self.model = self.solver.model()
        v = self.model.eval(val, model_completion=True)
        if not hasattr(v, 'as_long'):
            return None
        v = v.as_long()
        if self.feasible(val != v):
            return None
        return v

    def assume(self, cond):
        if isinstance(cond, bool):
            if not cond:
                raise Infeasible()
            return
        if self._model_says(cond) is True:
            self.solver.add(cond)
            return
        self.solver.add(cond)
        self.model = None
        if self.check() != z3.sat:
            raise Infeasible()
        self.model = self.solver.model()

    def verify(self, cond, msg):
        """Queue an assertion for this path; all queued assertions are decided by one query at the
        end of the path (or at flush_checks)."""
        self.stats['assert_queries'] += 1
        if isinstance(cond, bool):
            if not cond:
                self.flush_checks()
                self.check()
                raise Violation(msg, self.model_dict())
            return
        self.pending_checks.append((cond, msg))

    def flush_checks(self):
        pc = self.pending_checks
        self.pending_checks = []
        if not pc:
            return
        self.solver.push()
        self.solver.add(z3.Or(*[z3.Not(c) for c, _ in pc]))
        r = self.check()
        if r == z3.sat:
            m = self.solver.model()
            md = {str(d): (m[d].as_long() if hasattr(m[d], 'as_long') else str(m[d])) for d in m.decls()}
            failed = [msg for c, msg in pc if z3.is_false(m.eval(c, model_completion=True))]
            self.solver.pop()
            raise Violation('; '.join(failed) or 'assertion', md)
        self.solver.pop()

    def model_dict(self):
        try:
            m = self.solver.model()
        except z3.Z3Exception:
            return {}
        return {str(d): m[d].as_long() if hasattr(m[d], 'as_long') else str(m[d]) for d in m.decls()}

    def fresh_int(self, tag, lo=0, hi=U64 - 1):
        if self.fixed_values is not None and tag in self.fixed_values:
            return int(self.fixed_values[tag])
        self.symcount += 1
        v = z3.Int('%s' % tag)
        self.solver.add(v >= lo, v <= hi)
        return v

    # ------------------------------------------------------------ arithmetic
    def binop(self, op, a, b):
        sym = is_sym(a) or is_sym(b)
        if op in ('CheckedAdd', 'AddWithOverflow', 'CheckedSub', 'SubWithOverflow', 'CheckedMul', 'MulWithOverflow'):
            if 'Add' in op:
                r = a + b
                ov = (r >= U64) if sym else (r >= U64)
            elif 'Sub' in op:
                r = a - b
                ov = (r < 0)
            else:
                a, b = self.mul_operands(a, b)
                r = a * b
                ov = (r >= U64)
            return Agg('tuple', None, [r, ov])
        if op in ('Add', 'AddUnchecked'):
            return a + b
        if op in ('Sub', 'SubUnchecked'):
            return a - b
        if op in ('Mul', 'MulUnchecked'):
            a, b = self.mul_operands(a, b)
            return a * b
        if op == 'Div':
            if is_sym(b):
                b = self.concretise(b, 'division by symbolic value')
            return (a / b) if is_sym(a) else a // b
        if op == 'Rem':
            if is_sym(b):
                b = self.concretise(b, 'rem by symbolic value')
            return a % b
        if op == 'Eq':
            return self.eq(a, b)
        if op == 'Ne':
            r = self.eq(a, b)
            return (not r) if isinstance(r, bool) else z3.Not(r)
        if op == 'Lt':
            return a < b
        if op == 'Le':
            return a <= b
        if op == 'Gt':
            return a > b
        if op == 'Ge':
            return a >= b
        if op == 'BitAnd':
            if isinstance(a, bool) or z3.is_bool(a) or isinstance(b, bool) or z3.is_bool(b):
                return z3.And(a, b) if sym else (a and b)
            if not is_sym(b) and b & (b + 1) == 0:
                return a % (b + 1)
            if not sym:
                return a & b
            raise Unsupported('BitAnd symbolic')
        if op == 'BitOr':
            if isinstance(a, bool) or z3.is_bool(a):
                return z3.Or(a, b) if sym else (a or b)
            if not sym:
                return a | b
            raise Unsupported('BitOr symbolic')
        if op in ('Shr', 'ShrUnchecked'):
            if is_sym(b):
                raise Unsupported('shift by symbolic')
            return (a / (2 ** b)) if is_sym(a) else a >> b
        if op in ('Shl', 'ShlUnchecked'):
            if is_sym(b):
                raise Unsupported('shift by symbolic')
            return a * (2 ** b)
        raise Unsupported('binop ' + op)

    def eq(self, a, b):
        if isinstance(a, Agg) and isinstance(b, Agg):
            if a.variant != b.variant or len(a.fields) != len(b.fields):
                return False
            conds = [self.eq(x, y) for x, y in zip(a.fields, b.fields)]
            if all(isinstance(c, bool) for c in conds):
                return all(conds)
            return z3.And(*[c for c in conds if not (isinstance(c, bool) and c)]) if all(
                not (isinstance(c, bool) and not c) for c in conds) else False
        if isinstance(a, Ref) and isinstance(b, Ref):
            return self.eq(a.get(), b.get())
        r = (a == b)
        return r

    def truth(self, v):
        return self.branch(v)

    # ------------------------------------------------------------ places
    def place_slot(self, frame, p):
        """Return (container, key) for a place."""
        if isinstance(p, Local):
            return frame, p.n
        if isinstance(p, Deref):
            r = self.read_place(frame, p.p)
            if isinstance(r, Ref):
                return r.c, r.k
            raise Unsupported('deref of non-ref %r' % (r,))
        if isinstance(p, Field):
            obj = self.read_place(frame, p.p)
            while isinstance(obj, Ref):
                obj = obj.get()
            if isinstance(obj, Agg):
                return obj.fields, p.n
            raise Unsupported('field of %r' % (obj,))
        if isinstance(p, Downcast):
            return self.place_slot(frame, p.p)
        if isinstance(p, Index):
            obj = self.read_place(frame, p.p)
            idx = p.idx if isinstance(p.idx, int) else frame[p.idx.n]
            if isinstance(obj, VecV):
                idx = self.choose(idx, list(range(len(obj.items)))) if is_sym(idx) else idx
                return obj.items, idx
            if isinstance(obj, Agg):
                return obj.fields, idx
            raise Unsupported('index of %r' % (obj,))
        raise Unsupported('place %r' % (p,))

    def read_place(self, frame, p):
        if isinstance(p, Field) and p.ty.startswith(('std::ptr::Unique<', 'std::ptr::NonNull<')):
            # boxes are transparent in this model: the raw pointer inside a Box is a reference to the slot
            # that holds the boxed value
            if p.ty.startswith('std::ptr::Unique<'):
                c, k = self.place_slot(frame, p.p)
                return Ref(c, k)
            inner = self.read_place(frame, p.p)
            if isinstance(inner, Ref):
                return inner
        c, k = self.place_slot(frame, p)
        return c[k]

    def operand(self, frame, o):
        if isinstance(o, Move):
            return self.read_place(frame, o.p)
        if isinstance(o, Copy):
            return clone_val(self.read_place(frame, o.p))
        if isinstance(o, Const):
            return o.v
        if isinstance(o, Tuple):
            return Agg('tuple', None, [self.operand(frame, x) for x in o.ops])
        if isinstance(o, FnItem):
            if o.name.startswith('ZeroSized: '):
                nm = o.name[len('ZeroSized: '):]
                if nm.startswith('{closure@'):
                    return Agg(mp.strip_generics(nm), None, [])
                return FnVal(nm)
            if o.name.endswith('select_start_or_end_of_gap::promoted[0]'):
                return Ref([Agg('FittedDatumKind', 0, [])], 0)  # spike: promoted body taken from -Zunpretty=mir later
            return FnVal(o.name)
        raise Unsupported('operand %r' % (o,))

    def rvalue(self, frame, rv):
        if isinstance(rv, (Move, Copy, Const, FnItem)):
            return self.operand(frame, rv)
        if isinstance(rv, RefOf):
            c, k = self.place_slot(frame, rv.p)
            return Ref(c, k)
        if isinstance(rv, BinOp):
            return self.binop(rv.op, self.operand(frame, rv.a), self.operand(frame, rv.b))
        if isinstance(rv, UnOp):
            a = self.operand(frame, rv.a)
            if rv.op == 'Not':
                return (not a) if isinstance(a, bool) else z3.Not(a)
            if rv.op == 'discriminant':
                if isinstance(a, Agg):
                    return a.variant if a.variant is not None else 0
                raise Unsupported('discriminant of %r' % (a,))
            if rv.op == 'PtrMetadata':
                v = a.get() if isinstance(a, Ref) else a
                return len(v.items)
            raise Unsupported('unop ' + rv.op)
        if isinstance(rv, Cast):
            v = self.operand(frame, rv.a)
            if isinstance(v, Ref) and re.match(r'^(usize|u64|isize|i64)$', rv.ty.strip()):
                # address observed as an integer: an environment value (C19)
                self.env_reads += 1
                return self.fresh_int('env_addr_%d' % self.env_reads, 0, 2 ** 48)
            return v
        if isinstance(rv, Tuple):
            return Agg('tuple', None, [self.operand(frame, x) for x in rv.ops])
        if isinstance(rv, Array):
            return VecV([self.operand(frame, x) for x in rv.ops])
        if isinstance(rv, Aggregate):
            ops = [self.operand(frame, x) for x in rv.ops]
            name = mp.strip_generics(rv.name)
            if name.startswith('{closure@'):
                return Agg(name, None, ops)
            segs = name.split('::')
            if len(segs) >= 2 and segs[-2] in self.enums and segs[-1] in self.enums[segs[-2]]:
                return Agg(segs[-2], self.enums[segs[-2]][segs[-1]], ops)
            return Agg(segs[-1], None, ops)
        raise Unsupported('rvalue %r' % (rv,))

    # ------------------------------------------------------------ calls
    def resolve(self, callee):
        c = self._rcache
        if callee in c:
            return c[callee]
        r = self._resolve(callee)
        c[callee] = r
        return r

    def _resolve(self, callee):
        key = canon(callee)
        fs = self.by_key.get(key)
        if fs:
            return fs[0]
        m = re.match(r'^<(.+) as ([\w:]+?)(<.*>)?>::(\w+)$', key)
        if m:
            selfty, trait, targs, meth = m.group(1), m.group(2), m.group(3) or '', m.group(4)
            head = re.sub(r'<.*$', '', selfty).lstrip('&').replace('mut ', '')
            # impl for a generic Self type (`impl<D> Index<DatumId> for RecordDefinition<D>`): same type
            # constructor, same trait (with its own arguments), same method
            cands = []
            for k, lst in self.by_key.items():
                mm = re.match(r'^<(.+) as ([\w:]+?)(<.*>)?>::(\w+)$', k)
                if not mm or mm.group(4) != meth or mm.group(2).split('::')[-1] != trait.split('::')[-1]:
                    continue
                khead = re.sub(r'<.*$', '', mm.group(1)).lstrip('&').replace('mut ', '')
                if khead == head and head and head[0].isupper() and (mm.group(3) or '') == targs:
                    cands += lst
            if len(cands) == 1:
                return cands[0]
            # trait method on a generic Self: look for a unique impl of Trait::method
            cands = [f for k, lst in self.by_key.items() for f in lst
                     if re.match(r'^<.+ as %s(<.*>)?>::%s$' % (re.escape(trait), meth), k)]
            if len(cands) == 1:
                return cands[0]
        return None

    def call_value(self, fv, args):
        """Call a closure / fn item value with a list of args."""
        if isinstance(fv, Ref):
            fv = fv.get()
        if isinstance(fv, FnVal):
            return self.call(fv.name, args)
        if isinstance(fv, Agg) and fv.name.startswith('{closure@'):
            f = self.closure_fn.get(fv.name)
            if f is None:
                raise Unsupported('closure body not found ' + fv.name)
            t1 = f.local_types.get(1, '')
            env = fv
            if t1.startswith('&'):
                cell = [fv]
                env = Ref(cell, 0)
            return self.run(f, [env] + list(args))
        raise Unsupported('call of %r' % (fv,))

    def merged_call(self, f, args):
        """Function-level path merging for side-effect-free callees: the callee's MIR is explored on
        its own under the current path condition, outcomes with structurally equal results are merged
        by the disjunction of their path conditions, and the caller forks on distinct outcomes only.
        The exploration is cached per decision trace so that re-executions of the prefix reuse it."""
        self.merge_seq += 1
        ck = (self.merge_ctx, f.name, tuple(self.trace), self.merge_seq)
        cached = self.merge_cache.get(ck)
        if cached is None:
            saved = (self.prefix, self.trace, self.pending, self.conds, self.split_depth, self.pending_checks,
                     self.merge_ctx, self.merge_seq)
            self.merge_ctx = ck
            work = [[]]
            outcomes = {}
            order = []
            self.split_depth = None
            while work:
                sub = work.pop()
                self.prefix, self.trace, self.pending, self.conds = sub, [], work, []
                self.merge_seq = 0
                self.solver.push()
                model_before = self.model
                key = None
                try:
                    r = self.run(f, copy.deepcopy(args))
                    key = repr(r)
                    val = r
                except Panic as p:
                    key = 'PANIC:' + str(p)
                    val = p
                except Infeasible:
                    key = None
                finally:
                    self.solver.pop()
                    self.model = None
                if key is not None:
                    pc = z3.And(*self.conds) if self.conds else z3.BoolVal(True)
                    if key not in outcomes:
                        outcomes[key] = [val, []]
                        order.append(key)
                    outcomes[key][1].append(pc)
            (self.prefix, self.trace, self.pending, self.conds, self.split_depth, self.pending_checks,
             self.merge_ctx, self.merge_seq) = saved
            self.stats['merged_calls'] = self.stats.get('merged_calls', 0) + 1
            cached = [(outcomes[k][0], z3.simplify(z3.Or(*outcomes[k][1])) if len(outcomes[k][1]) > 1 else outcomes[k][1][0]) for k in order]
            self.merge_cache[ck] = cached
        if not cached:
            raise Infeasible()
        for val, pc in cached[:-1]:
            if self.branch(pc):
                if isinstance(val, Panic):
                    raise val
                return deep_clone(val)
        val, pc = cached[-1]
        if len(cached) > 1 or True:
            self.assume_quiet(pc)
        if isinstance(val, Panic):
            raise val
        return deep_clone(val)

    def assume_quiet(self, cond):
        """Add a condition that is implied on this path (the other outcomes were excluded)."""
        if isinstance(cond, bool) or z3.is_true(cond):
            return
        self._add(cond)

    def call(self, callee, args):
        for pat, hook in self.dispatch_hooks:
            if pat in callee:
                r = hook(self, callee, args)
                if r is not NotImplemented:
                    return r
        f = self.resolve(callee)
        if f is not None:
            if f.name in self.merge_fns:
                return self.merged_call(f, args)
            return self.run(f, args)
        b = self._bcache.get(callee)
        if b is None:
            b = self.find_builtin(mp.strip_generics(callee))
            if b is None:
                raise Unsupported('callee ' + callee)
            self._bcache[callee] = b
        return b(self, args, callee)

    def find_builtin(self, key):
        if key in self.builtins:
            return self.builtins[key]
        # <X as Trait>::method -> Trait::method ; path::Type::method -> Type::method ; slice impl
        m = re.match(r'^<(.+) as ([\w:]+?)(<.*>)?>::(\w+)$', key)
        if m:
            trait = m.group(2).split('::')[-1]
            k2 = '%s::%s' % (trait, m.group(4))
            if k2 in self.builtins:
                return self.builtins[k2]
        m = re.match(r'^core::slice::<impl \[.*\]>::(\w+)$', key)
        if m and ('slice::' + m.group(1)) in self.builtins:
            return self.builtins['slice::' + m.group(1)]
        m = re.match(r'^core::bool::<impl bool>::(\w+)$', key)
        if m and ('bool::' + m.group(1)) in self.builtins:
            return self.builtins['bool::' + m.group(1)]
        segs = key.split('::')
        if len(segs) >= 2:
            # strip type generics like Vec<DatumId>
            ty = re.sub(r'<.*>$', '', segs[-2])
            k2 = '%s::%s' % (ty, segs[-1])
            if k2 in self.builtins:
                return self.builtins[k2]
        if segs[-1] in self.builtins:
            return self.builtins[segs[-1]]
        return None

    def run(self, f, args):
        frame = {}
        for i, a in enumerate(args):
            frame[i + 1] = a
        bb = 0
        blocks = getattr(f, 'parsed', None)
        if blocks is None:
            blocks = {b: [mp.parse_stmt(t) for t in lines] for b, lines in f.blocks.items()}
            f.parsed = blocks
        while True:
            self.path_steps += len(blocks[bb])
            if self.path_steps > self.step_budget:
                raise Unsupported('step budget exceeded on one path (loop guard)')
            for st in blocks[bb]:
                self.stats['stmts'] += 1
                k = st[0]
                if k == 'assign':
                    v = self.rvalue(frame, st[2])
                    c, key = self.place_slot(frame, st[1])
                    c[key] = v
                elif k == 'call':
                    cl = st[1]
                    argv = [self.operand(frame, a) for a in cl.args]
                    m = re.match(r'^_(\d+)$', cl.callee)
                    if m:
                        r = self.call_value(frame[int(m.group(1))], argv)
                    else:
                        r = self.call(cl.callee, argv)
                    c, key = self.place_slot(frame, cl.dest)
                    c[key] = r
                    if cl.ret is None:
                        raise Panic('diverging call returned: ' + cl.callee)
                    bb = cl.ret
                    break
                elif k == 'goto':
                    bb = st[1]
                    break
                elif k == 'switch':
                    v = self.operand(frame, st[1])
                    if isinstance(v, bool):
                        v = 1 if v else 0
                    if is_sym(v):
                        if z3.is_bool(v):
                            v = 1 if self.branch(v) else 0
                        else:
                            v = self.choose(v, sorted(st[2].keys()) + [None])
                    bb = st[2].get(v, st[3])
                    if bb is None:
                        raise Unsupported('switch without target')
                    break
                elif k == 'assert':
                    v = self.operand(frame, st[1])
                    if st[2]:
                        v = (not v) if isinstance(v, bool) else z3.Not(v)
                    if not self.branch(v):
                        raise Panic(st[3])
                    bb = st[4]
                    break
                elif k == 'drop':
                    bb = st[2]
                    break
                elif k == 'return':
                    return frame.get(0, UNIT)
                elif k == 'nop':
                    pass
                elif k == 'unreachable':
                    raise Unsupported('reached unreachable in ' + f.name)
                elif k == 'resume':
                    raise Panic('resume')
                else:
                    raise Unsupported('stmt ' + k)
