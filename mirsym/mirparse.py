"""Parser for rustc `-Zunpretty=stable-mir` text (spike)."""
import re
from dataclasses import dataclass, field

OPEN = '([{<'
CLOSE = ')]}>'
PAIR = {')': '(', ']': '[', '}': '{', '>': '<'}


def scan_top(s, start=0):
    """Yield (i, ch) for characters at bracket depth 0, skipping string literals."""
    depth = 0
    i = start
    n = len(s)
    while i < n:
        c = s[i]
        if c == '"':
            j = i + 1
            while j < n and s[j] != '"':
                if s[j] == '\\':
                    j += 1
                j += 1
            i = j + 1
            continue
        if c in '([{':
            depth += 1
        elif c in ')]}':
            depth -= 1
        elif c == '<':
            depth += 1
        elif c == '>':
            if i > 0 and s[i - 1] in '-=':
                pass
            else:
                depth -= 1
        elif depth == 0:
            yield i, c
        i += 1


def split_top(s, sep=','):
    parts = []
    last = 0
    for i, c in scan_top(s):
        if c == sep:
            parts.append(s[last:i].strip())
            last = i + 1
    tail = s[last:].strip()
    if tail or parts:
        parts.append(tail)
    return [p for p in parts if p != '']


def find_top(s, sub, start=0):
    L = len(sub)
    for i, c in scan_top(s, 0):
        if i >= start and s.startswith(sub, i):
            return i
    return -1


def match_close(s, i):
    """s[i] is an opening bracket; return index of matching close."""
    depth = 0
    n = len(s)
    j = i
    while j < n:
        c = s[j]
        if c == '"':
            k = j + 1
            while k < n and s[k] != '"':
                if s[k] == '\\':
                    k += 1
                k += 1
            j = k + 1
            continue
        if c in '([{':
            depth += 1
        elif c in ')]}':
            depth -= 1
            if depth == 0:
                return j
        elif c == '<':
            depth += 1
        elif c == '>' and not (j > 0 and s[j - 1] in '-='):
            depth -= 1
            if depth == 0:
                return j
        j += 1
    raise ValueError('unbalanced: ' + s)


def last_top_open(s):
    """Index of the last '(' opened at depth 0 (string- and bracket-aware), or None."""
    depth = 0
    i = 0
    n = len(s)
    last = None
    while i < n:
        c = s[i]
        if c == '"':
            j = i + 1
            while j < n and s[j] != '"':
                if s[j] == '\\':
                    j += 1
                j += 1
            i = j + 1
            continue
        if c in '([{':
            if depth == 0 and c == '(':
                last = i
            depth += 1
        elif c in ')]}':
            depth -= 1
        elif c == '<':
            depth += 1
        elif c == '>' and not (i > 0 and s[i - 1] in '-='):
            depth -= 1
        i += 1
    return last


def strip_generics(name):
    """Remove every `::<...>` turbofish segment and `<...>` after a path ident."""
    out = []
    i = 0
    n = len(name)
    while i < n:
        if name.startswith('::<', i):
            j = match_close(name, i + 2)
            i = j + 1
            continue
        out.append(name[i])
        i += 1
    return ''.join(out)


@dataclass
class Func:
    name: str
    nparams: int
    local_types: dict
    blocks: dict
    header: str
    key: str = ''


def parse_file(path):
    src = open(path).read()
    funcs = {}
    chunks = re.split(r'\n(?=fn )', '\n' + src)
    for ch in chunks:
        ch = ch.strip('\n')
        if not ch.startswith('fn '):
            continue
        lines = ch.split('\n')
        header = lines[0]
        m = re.search(r'\((_1: |\) -> )', header)
        if not m:
            continue
        name = header[3:m.start()]
        # params
        pstart = m.start()
        pend = match_close(header, pstart)
        params = split_top(header[pstart + 1:pend])
        local_types = {}
        for p in params:
            mm = re.match(r'_(\d+): (.*)$', p)
            if mm:
                local_types[int(mm.group(1))] = mm.group(2)
        blocks = {}
        cur = None
        for ln in lines[1:]:
            t = ln.strip()
            mm = re.match(r'let\s+(mut\s+)?_(\d+): (.*);$', t)
            if mm and cur is None:
                local_types[int(mm.group(2))] = mm.group(3)
                continue
            mm = re.match(r'bb(\d+): \{$', t)
            if mm:
                cur = int(mm.group(1))
                blocks[cur] = []
                continue
            if t == '}':
                if cur is not None:
                    cur = None
                continue
            if cur is not None and t:
                blocks[cur].append(t)
        f = Func(name=name, nparams=len(params), local_types=local_types, blocks=blocks, header=header)
        if name in funcs:
            # stable-mir drops module paths: disambiguate by signature (spike: tag native variants)
            alt = (name + '#native') if 'NativeDatumDetails' in header else (name + '#generic')
            if 'NativeDatumDetails' in funcs[name].header and 'NativeDatumDetails' not in header:
                funcs[name + '#native'] = funcs[name]
                funcs[name] = f
            else:
                funcs[alt] = f
        else:
            funcs[name] = f
    return funcs


# ---------------------------------------------------------------- expressions

@dataclass
class Local:
    n: int


@dataclass
class Deref:
    p: object


@dataclass
class Field:
    p: object
    n: int
    ty: str = ''


@dataclass
class Downcast:
    p: object
    v: int


@dataclass
class Index:
    p: object
    idx: object  # Local or int


@dataclass
class Move:
    p: object


@dataclass
class Copy:
    p: object


@dataclass
class Const:
    v: object
    kind: str = ''


@dataclass
class FnItem:
    name: str


@dataclass
class RefOf:
    p: object
    mut: bool
    raw: bool = False


@dataclass
class BinOp:
    op: str
    a: object
    b: object


@dataclass
class UnOp:
    op: str
    a: object


@dataclass
class Cast:
    a: object
    ty: str


@dataclass
class Aggregate:
    name: str
    variant: object
    ops: list


@dataclass
class Tuple:
    ops: list


@dataclass
class Array:
    ops: list


BINOPS = {'Add', 'Sub', 'Mul', 'Div', 'Rem', 'Eq', 'Ne', 'Lt', 'Le', 'Gt', 'Ge', 'BitAnd', 'BitOr', 'BitXor',
          'Shl', 'Shr', 'CheckedAdd', 'CheckedSub', 'CheckedMul', 'AddWithOverflow', 'SubWithOverflow',
          'MulWithOverflow', 'Offset', 'Cmp', 'AddUnchecked', 'SubUnchecked', 'MulUnchecked', 'ShlUnchecked',
          'ShrUnchecked'}
UNOPS = {'Not', 'Neg', 'PtrMetadata'}

_place_cache = {}


def parse_place(s):
    s = s.strip()
    if s in _place_cache:
        return _place_cache[s]
    r = _parse_place(s)
    _place_cache[s] = r
    return r


def _parse_place(s):
    m = re.match(r'^_(\d+)$', s)
    if m:
        return Local(int(m.group(1)))
    if s.endswith(']'):
        # index projection: find matching '['
        depth = 0
        for i in range(len(s) - 1, -1, -1):
            if s[i] == ']':
                depth += 1
            elif s[i] == '[':
                depth -= 1
                if depth == 0:
                    base = s[:i]
                    idx = s[i + 1:-1].strip()
                    mm = re.match(r'^_(\d+)$', idx)
                    if mm:
                        return Index(parse_place(base), Local(int(mm.group(1))))
                    mm = re.match(r'^(\d+) of (\d+)$', idx)
                    if mm:
                        return Index(parse_place(base), int(mm.group(1)))
                    raise ValueError('index form ' + s)
        raise ValueError(s)
    if s.startswith('(') and match_close(s, 0) == len(s) - 1:
        inner = s[1:-1].strip()
        if inner.startswith('*'):
            return Deref(parse_place(inner[1:]))
        i = find_top(inner, ' as variant#')
        if i >= 0:
            return Downcast(parse_place(inner[:i]), int(inner[i + len(' as variant#'):]))
        i = find_top(inner, ': ')
        if i >= 0:
            left = inner[:i]
            base, _, fld = left.rpartition('.')
            return Field(parse_place(base), int(fld), inner[i + 2:].strip())
        return parse_place(inner)
    raise ValueError('place? ' + s)


def looks_like_place(s):
    s = s.strip()
    if re.match(r'^_\d+$', s):
        return True
    if s.startswith('(') and match_close(s, 0) == len(s) - 1:
        inner = s[1:-1].strip()
        if inner.startswith('*'):
            return True
        if find_top(inner, ',') >= 0:
            return False
        if find_top(inner, ' as variant#') >= 0 or find_top(inner, ': ') >= 0:
            return True
        return looks_like_place(inner)
    if s.endswith(']') and not s.startswith('['):
        i = s.find('[')
        return looks_like_place(s[:i]) if i > 0 else False
    return False


INT_RE = re.compile(r'^(-?\d+)_(usize|isize|u8|u16|u32|u64|u128|i8|i16|i32|i64|i128)$')


def parse_operand(s):
    s = s.strip()
    if s.startswith('move '):
        return Move(parse_place(s[5:]))
    if s.startswith('copy '):
        return Copy(parse_place(s[5:]))
    if looks_like_place(s):
        return Copy(parse_place(s))
    m = INT_RE.match(s)
    if m:
        return Const(int(m.group(1)), m.group(2))
    if s == 'true':
        return Const(True, 'bool')
    if s == 'false':
        return Const(False, 'bool')
    if s == '()':
        return Tuple([])
    if s.startswith('"') or s.startswith('b"'):
        return Const(s, 'str')
    if s.startswith("'"):
        return Const(s, 'char')
    if s.endswith('::MAX') and 'usize' in s:
        return Const(2 ** 64 - 1, 'usize')
    return FnItem(s)


_rv_cache = {}


def parse_rvalue(s):
    s = s.strip()
    if s in _rv_cache:
        return _rv_cache[s]
    r = _parse_rvalue(s)
    _rv_cache[s] = r
    return r


def _parse_rvalue(s):
    m1 = re.match(r'^\(((?:move |copy )?_\d+)\)$', s)
    if m1:
        # a one-element tuple is printed without a trailing comma
        return Tuple([parse_operand(m1.group(1))])
    if s.startswith('&raw const '):
        return RefOf(parse_place(s[11:].replace('(fake) ', '')), False, True)
    if s.startswith('&raw mut '):
        return RefOf(parse_place(s[9:].replace('(fake) ', '')), True, True)
    if (s.startswith('move ') or s.startswith('copy ')) and looks_like_place(s[5:]):
        return parse_operand(s)
    if s.startswith('&mut '):
        return RefOf(parse_place(s[5:]), True)
    if s.startswith('&') and looks_like_place(s[1:]):
        return RefOf(parse_place(s[1:]), False)
    if s.startswith('no_retag '):
        return parse_rvalue(s[len('no_retag '):])
    if s.startswith('discriminant('):
        return UnOp('discriminant', Copy(parse_place(s[len('discriminant('):-1])))
    m = re.match(r'^([A-Za-z]+)\(', s)
    if m and m.group(1) in BINOPS and match_close(s, m.end() - 1) == len(s) - 1:
        a, b = split_top(s[m.end():-1])
        return BinOp(m.group(1), parse_operand(a), parse_operand(b))
    if m and m.group(1) in UNOPS and match_close(s, m.end() - 1) == len(s) - 1:
        return UnOp(m.group(1), parse_operand(s[m.end():-1]))
    i = find_top(s, ' as ')
    if i >= 0:
        return Cast(parse_operand(s[:i]), s[i + 4:])
    if s.startswith('[') and s.endswith(']'):
        inner = s[1:-1]
        j = find_top(inner, ';')
        if j >= 0:
            return Array([parse_operand(inner[:j])] * 0 + ['repeat', parse_operand(inner[:j]), inner[j + 1:].strip()])
        return Array([parse_operand(x) for x in split_top(inner)])
    if s.startswith('(') and match_close(s, 0) == len(s) - 1 and not looks_like_place(s):
        return Tuple([parse_operand(x) for x in split_top(s[1:-1])])
    # aggregate with parens at the end
    if s.endswith(')') and not looks_like_place(s):
        i = last_top_open(s)
        if i is None:
            raise ValueError('aggregate? ' + s)
        head = s[:i]
        ops = [parse_operand(x) for x in split_top(s[i + 1:-1])]
        return Aggregate(head, None, ops)
    op = parse_operand(s)
    if isinstance(op, FnItem) and re.match(r'^[A-Za-z_][\w:<>, ]*::[A-Z]\w*$', s):
        # unit enum variant such as Option::None
        return Aggregate(s, None, [])
    return op


@dataclass
class Call:
    dest: object
    callee: str
    args: list
    ret: object
    unwind: object


def parse_targets(s):
    """'[return: bb1, unwind: bb2]' / '[0: bb1, otherwise: bb2]' -> dict"""
    out = {}
    for part in split_top(s.strip()[1:-1]):
        k, _, v = part.partition(':')
        out[k.strip()] = v.strip()
    return out


def bbnum(s):
    m = re.match(r'^bb(\d+)$', s.strip())
    return int(m.group(1)) if m else None


_stmt_cache = {}


def parse_stmt(t):
    if t in _stmt_cache:
        return _stmt_cache[t]
    r = _parse_stmt(t)
    _stmt_cache[t] = r
    return r


def _parse_stmt(t):
    assert t.endswith(';'), t
    t = t[:-1]
    if t == 'return':
        return ('return',)
    if t == 'unreachable':
        return ('unreachable',)
    if t == 'resume':
        return ('resume',)
    if t.startswith('goto -> '):
        return ('goto', bbnum(t[8:]))
    if t.startswith('StorageLive(') or t.startswith('StorageDead(') or t == 'nop':
        return ('nop',)
    if t.startswith('switchInt('):
        j = match_close(t, len('switchInt'))
        op = parse_operand(t[len('switchInt('):j])
        tg = parse_targets(t[j + 1:].strip()[3:].strip())
        table = {}
        other = None
        for k, v in tg.items():
            if k == 'otherwise':
                other = bbnum(v)
            else:
                table[int(k)] = bbnum(v)
        return ('switch', op, table, other)
    if t.startswith('drop('):
        j = match_close(t, 4)
        tg = parse_targets(t[j + 1:].strip()[3:].strip())
        return ('drop', parse_place(t[5:j]), bbnum(tg['return']))
    if t.startswith('assert('):
        j = match_close(t, 6)
        parts = split_top(t[7:j])
        cond = parts[0]
        neg = False
        if cond.startswith('!'):
            neg = True
            cond = cond[1:]
        tg = parse_targets(t[j + 1:].strip()[3:].strip())
        return ('assert', parse_operand(cond), neg, parts[1] if len(parts) > 1 else '', bbnum(tg['success']))
    # assignment or call
    i = find_top(t, ' = ')
    assert i >= 0, t
    dest = parse_place(t[:i])
    rhs = t[i + 3:]
    k = rhs.rfind(') -> ')
    if k >= 0 and find_top(rhs, ' -> ', 0) >= 0:
        # call: find the top-level ' -> ' that follows the argument list
        arrow = None
        for idx, c in scan_top(rhs):
            if rhs.startswith(' -> ', idx) and idx > 0 and rhs[idx - 1] == ')':
                arrow = idx
        if arrow is not None:
            callpart = rhs[:arrow]
            tgt = rhs[arrow + 4:].strip()
            open_i = last_top_open(callpart)
            callee = callpart[:open_i].strip()
            args = [parse_operand(x) for x in split_top(callpart[open_i + 1:-1])]
            ret = None
            if tgt.startswith('['):
                tg = parse_targets(tgt)
                ret = bbnum(tg.get('return', ''))
            return ('call', Call(dest, callee, args, ret, None))
    return ('assign', dest, parse_rvalue(rhs))
