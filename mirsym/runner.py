"""Parallel task runner for mirsym explorations."""
import multiprocessing as mpx
import os
import sys
import time
import traceback

import mirparse as mp
import layout
from engine import Unsupported

_FUNCS = None
_OPTS = None
_SMIR = None


def _init(smir, opts):
    global _FUNCS, _OPTS, _SMIR
    _SMIR = smir
    _OPTS = opts
    _FUNCS = mp.parse_file(smir)
    sys.setrecursionlimit(20000)


def _worker(job):
    task, start, split_depth = job
    t0 = time.time()
    e = layout.new_engine(_FUNCS)
    e.time_slice = _OPTS.get('time_slice', 3.0)
    if _OPTS.get('merge'):
        e.merge_fns = set(_OPTS['merge'])
    e.panic_is_violation = True
    kind = task['kind']
    fn = {'step': layout.run_step, 'hist': layout.run_hist, 'def': layout.run_def}.get(kind)
    if fn is None:
        import drivers
        fn = drivers.DRIVERS[kind]
    try:
        res = e.explore(lambda eng: fn(eng, task, _OPTS), max_paths=_OPTS.get('max_paths', 10 ** 7), start=start,
                        split_depth=split_depth)
        err = None
    except Unsupported as u:
        res = []
        err = 'unsupported: %s' % u
    except RecursionError:
        res = []
        err = 'recursion limit'
    except Exception as ex:  # engine bug: never a verdict
        res = []
        err = 'engine error: %s\n%s' % (ex, traceback.format_exc()[-1500:])
    if _OPTS.get('env_pairs') and getattr(e, 'path_records', None) and not e.leftover:
        try:
            for msg, model in layout.env_pairs(e):
                res.append(('violation', msg, model))
        except Exception as ex:
            err = (err or '') + ' env_pairs: %r' % (ex,)
    st = dict(e.stats)
    st['wall'] = time.time() - t0
    st['host_reads'] = e.host_reads
    st['env_reads'] = e.env_reads
    return task, st, res, err, list(e.leftover)


def run(smir, tasks, opts, procs=None, deadline=None):
    """Returns (stats, results, errors, done_tasks). results: list of (task, kind, msg, model)."""
    procs = procs or min(os.cpu_count() or 4, max(1, len(tasks)))
    tot = {}
    results, errors = [], []
    done = 0
    t0 = time.time()
    import concurrent.futures as cf
    with cf.ProcessPoolExecutor(procs, initializer=_init, initargs=(smir, opts)) as pool:
        # every job explores for a time slice and hands back the unexplored prefixes, which are
        # re-submitted as new jobs (dynamic load balancing over the cores)
        futs = {pool.submit(_worker, (t, None, None)): True for t in tasks}
        stop = False
        while futs and not stop:
            remaining = None if deadline is None else max(0.1, deadline - time.time())
            fin, _ = cf.wait(list(futs), timeout=remaining, return_when=cf.FIRST_COMPLETED)
            if not fin:
                errors.append('time budget exhausted with %d jobs outstanding' % len(futs))
                stop = True
                break
            for f in fin:
                first = futs.pop(f)
                try:
                    task, st, res, err, leftover = f.result()
                except Exception as ex:
                    errors.append('worker died: %s' % ex)
                    continue
                if first:
                    done += 1
                for k, v in st.items():
                    if isinstance(v, (int, float)):
                        tot[k] = tot.get(k, 0) + v
                for r in res:
                    results.append((task,) + tuple(r))
                if err:
                    errors.append('%s [task %s]' % (err, {k: task[k] for k in task if k != 'kind'}))
                for p in leftover:
                    futs[pool.submit(_worker, (task, p, None))] = False
                tot['jobs'] = tot.get('jobs', 0) + 1
        if stop:
            for f in futs:
                f.cancel()
            for p in list(getattr(pool, '_processes', {}).values()):
                p.terminate()
    tot['wall_total'] = time.time() - t0
    tot['tasks'] = len(tasks)
    tot['tasks_done'] = done
    return tot, results, errors


if __name__ == '__main__':
    import json
    smir = sys.argv[1]
    strategy, K, M = sys.argv[2], int(sys.argv[3]), int(sys.argv[4])
    S = int(sys.argv[5]) if len(sys.argv) > 5 else 0
    P = int(sys.argv[6]) if len(sys.argv) > 6 else 0
    opts = dict(final=os.environ.get('FINAL', '0') == '1', zst=os.environ.get('ZST', '1') == '1', merge=os.environ.get('MERGE', '').split(',') if os.environ.get('MERGE') else [])
    tasks = layout.def_tasks(K, M) if strategy == 'def' else layout.step_tasks(strategy, K, M, S, P, split_new_aligns=os.environ.get('SPLIT', '1') == '1')
    tot, res, errs = run(smir, tasks, opts)
    print(json.dumps({k: (round(v, 1) if isinstance(v, float) else v) for k, v in tot.items()}))
    seen = {}
    for r in res:
        seen.setdefault((r[1], r[2]), r)
    for k, r in list(seen.items())[:15]:
        print(' ', r[1], r[2], {kk: vv for kk, vv in r[3].items()}, {k2: r[0][k2] for k2 in ('rm', 'stale', 'new_aligns')})
    print('results', len(res), 'distinct', len(seen), 'errors', errs[:5])
