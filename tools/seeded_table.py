#!/usr/bin/env python3
"""Collects out/seeded-<id>-<prop>.log results into seeded/RESULTS.md and the meta.json files."""
import glob, json, os, re
os.chdir('/verif')
rows = []
for meta_path in sorted(glob.glob('seeded/*/meta.json')):
    sid = os.path.basename(os.path.dirname(meta_path))
    meta = json.load(open(meta_path))
    prop = meta['property']
    res = []
    for log in sorted(glob.glob('out/seeded-%s-*.log' % sid)):
        p = re.search(r'-(C\d\d)\.log$', log).group(1)
        txt = open(log).read()
        if re.search(r'^VIOLATION', txt, re.M):
            first = re.search(r'^VIOLATION.*\n\s+(.*)', txt, re.M)
            res.append((p, 'exit 1 VIOLATION', (first.group(1) if first else '')[:220]))
        elif re.search(r'^INCONCLUSIVE', txt, re.M):
            first = re.search(r'^INCONCLUSIVE property=\S+ (.*)', txt, re.M)
            res.append((p, 'exit 2 inconclusive', first.group(1)[:220]))
        elif re.search(r'^OK property', txt, re.M):
            res.append((p, 'exit 0 (missed)', ''))
    meta['results'] = [dict(check=p, outcome=o, detail=d) for p, o, d in res]
    det = [r for r in res if r[1].startswith('exit 1')]
    meta['detected_by'] = dict(check=det[0][0], tier='quick', how=det[0][2], exit=1) if det else meta.get('detected_by')
    json.dump(meta, open(meta_path, 'w'), indent=1)
    rows.append((sid, prop, meta.get('needs_to_manifest', ''), res))
with open('seeded/RESULTS.md', 'w') as f:
    f.write('# Seeded changes: what the registered quick checks say\n\n| seeded change | property | needs | check results |\n|---|---|---|---|\n')
    for sid, prop, needs, res in rows:
        f.write('| %s | %s | %s | %s |\n' % (sid, prop, needs.replace('|', '/'), '; '.join('%s: %s' % (p, o) for p, o, d in res) or 'not run'))
print(open('seeded/RESULTS.md').read())
