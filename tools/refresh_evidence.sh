#!/bin/sh
# Re-runs every claimed check's quick command on the (clean) tree so that committed evidence describes such a run.
cd /verif
if [ -n "$(git -C /repo status --porcelain --untracked-files=no)" ]; then echo "repo not clean"; exit 3; fi
for p in $(python3 -c "import json;print(' '.join(c['property_id'] for c in json.load(open('MANIFEST.json'))['checks']))"); do
  if [ -n "$1" ] && ! echo " $* " | grep -q " $p "; then continue; fi
  /usr/bin/time -f "$p %es" ./check $p --tier quick > out/refresh-$p.log 2>&1; echo "$p exit $? $(tail -1 out/refresh-$p.log)"
done
