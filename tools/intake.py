#!/usr/bin/env python3
"""Intake of a sub-agent's seeded change: confirm in a scratch worktree that the patch applies,
the unedited test-suite passes with it, the demonstration fails with it and passes without it;
then keep it as /verif/seeded/<id>/.
usage: intake.py <agent_out_dir> <seed_id> <property> [--needs "text"]"""
import json, os, shutil, subprocess, sys, time

def sh(cmd, cwd=None, timeout=1800):
    p = subprocess.run(cmd, cwd=cwd, shell=isinstance(cmd, str), stdout=subprocess.PIPE, stderr=subprocess.STDOUT,
                       text=True, timeout=timeout, env=dict(os.environ, CARGO_NET_OFFLINE="true"))
    return p.returncode, p.stdout

def main():
    src, sid, prop = sys.argv[1], sys.argv[2], sys.argv[3]
    needs = sys.argv[5] if len(sys.argv) > 5 and sys.argv[4] == "--needs" else ""
    patch = os.path.join(src, "patch.diff")
    demo = os.path.join(src, "demo")
    wt = "/tmp/scratch/intake-%s" % sid
    shutil.rmtree(wt, ignore_errors=True)
    sh(["git", "-C", "/repo", "worktree", "prune"])
    rc, out = sh(["git", "-C", "/repo", "worktree", "add", "--detach", wt, "HEAD"])
    assert rc == 0, out
    shutil.copy("/repo/Cargo.lock", os.path.join(wt, "Cargo.lock"))
    ran = []
    try:
        rc, out = sh(["bash", os.path.join(demo, "run.sh"), wt], cwd=demo)
        ran.append({"cmd": "demo/run.sh <clean tree>", "rc": rc})
        base_ok = rc == 0
        rc, out = sh(["git", "apply", "--whitespace=nowarn", patch], cwd=wt)
        if rc != 0:
            rc, out = sh(["git", "apply", "-3", "--whitespace=nowarn", patch], cwd=wt)
        assert rc == 0, "patch does not apply: " + out
        # refresh the patch against the current HEAD
        sh(["git", "add", "-A", "-N", "--", "truc", "truc_runtime"], cwd=wt)
        rc, newpatch = sh(["git", "diff"], cwd=wt)
        rc, out = sh("cargo test --workspace --no-fail-fast --offline 2>&1 | grep -E '^test result|FAILED|^error' ", cwd=wt)
        ran.append({"cmd": "cargo test --workspace --no-fail-fast --offline (with patch)", "out": out.strip().splitlines()[-12:]})
        tests_ok = "FAILED" not in out and "\nerror" not in ("\n" + out) and out.count("test result: ok") >= 5
        rc, dout = sh(["bash", os.path.join(demo, "run.sh"), wt], cwd=demo)
        ran.append({"cmd": "demo/run.sh <patched tree>", "rc": rc})
        mut_fails = rc != 0
        print("baseline demo passes:", base_ok, "| suite passes with patch:", tests_ok, "| demo fails with patch:", mut_fails)
        if not (base_ok and tests_ok and mut_fails):
            print(out[-2000:]); print(dout[-2000:])
            print("REJECTED")
            return 1
        dst = "/verif/seeded/%s" % sid
        shutil.rmtree(dst, ignore_errors=True)
        os.makedirs(dst)
        open(os.path.join(dst, "patch.diff"), "w").write(newpatch)
        shutil.copytree(demo, os.path.join(dst, "demo"), ignore=shutil.ignore_patterns("target", "Cargo.lock"))
        if os.path.exists(os.path.join(src, "README.md")):
            shutil.copy(os.path.join(src, "README.md"), os.path.join(dst, "README.md"))
        meta = {"id": sid, "property": prop, "needs_to_manifest": needs, "source": "independent sub-agent given only the property text",
                "base_commit": subprocess.check_output(["git", "-C", "/repo", "rev-parse", "--short", "HEAD"], text=True).strip(),
                "confirmed": {"demo_passes_on_clean_tree": base_ok, "test_suite_passes_with_patch": tests_ok, "demo_fails_with_patch": mut_fails},
                "ran": ran, "detected_by": None}
        json.dump(meta, open(os.path.join(dst, "meta.json"), "w"), indent=1)
        print("KEPT", dst)
        return 0
    finally:
        sh(["git", "-C", "/repo", "worktree", "remove", "--force", wt])
        shutil.rmtree(wt, ignore_errors=True)

if __name__ == "__main__":
    sys.exit(main())
