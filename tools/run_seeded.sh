#!/bin/sh
# usage: run_seeded.sh <seed_id> <property> [tier]   — apply the seeded change to /repo, run the check, undo it.
set -u
id=$1; prop=$2; tier=${3:-quick}
cd /repo || exit 3
if [ -n "$(git status --porcelain --untracked-files=no)" ]; then echo "repo not clean"; exit 3; fi
git apply --whitespace=nowarn /verif/seeded/$id/patch.diff || { echo "patch failed"; exit 3; }
cd /verif && ./check $prop --tier $tier > /verif/out/seeded-$id-$prop.log 2>&1
rc=$?
cd /repo && git checkout -- . && git clean -fdq truc truc_runtime
echo "seeded $id on $prop ($tier): exit $rc"; grep -E "^VIOLATION|^INCONCLUSIVE|^KNOWN|^OK" /verif/out/seeded-$id-$prop.log | head -5
exit $rc
