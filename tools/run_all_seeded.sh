#!/bin/sh
# usage: run_all_seeded.sh <id-prefix-filter...>  — runs every seeded change against the check of its property
cd /verif
for d in seeded/*/; do
  id=$(basename $d)
  prop=$(python3 -c "import json;print(json.load(open('seeded/$id/meta.json'))['property'])")
  if [ -n "$1" ]; then echo " $* " | grep -q " $id " || continue; fi
  tools/run_seeded.sh $id $prop 2>&1 | head -3
done
