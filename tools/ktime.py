#!/usr/bin/env python3
"""ad-hoc: run a list of kgen harnesses and print time per harness"""
import sys, os
sys.path.insert(0, '/verif/lib')
import kani
names = sys.argv[1:]
flags = ["-Z", "stubbing", "--no-assertion-reach-checks"]
res, out, wall, rc = kani.run_batch('/verif/kgen/harness', '/verif/.build/kgen-kani', names, flags=flags, rustflags="--cfg truc_verif", jobs=16, log_path='/verif/.build/logs/ktime.log')
for n in names:
    r = res[n]
    print("%-28s %-11s %6.1fs checks=%d failed=%s" % (n, r.status, r.time_s, r.checks, [c['desc'][:60] for c in r.failed_checks]))
print("wall", round(wall,1))
