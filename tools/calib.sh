#!/bin/sh
# usage: calib.sh <smir> "<strategy K M [S P]>" ...   (each under a 15 min cap)
smir=$1; shift
cd /verif/mirsym
for a in "$@"; do echo "== $a"; ( export MERGE=select_best; /usr/bin/time -f "real %es" timeout ${CAP:-900} python3-vt runner.py $smir $a ) 2>&1 | grep -v "^user\|^sys\|^$" | cut -c1-420; done
