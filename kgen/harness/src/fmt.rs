//! Two minimal serde formats over a fixed token array (C15): a non-self-describing one (tuple
//! lengths are trusted, exact `size_hint`) and a self-describing one (no hint, sequences end
//! where the input ends / at an end marker, trailing elements are an error of the format).
use kgen_types::*;
use serde::de::{DeserializeSeed, SeqAccess, Visitor};
use serde::ser::{SerializeStruct, SerializeTuple};

pub const MAXTOK: usize = 24;

#[derive(Clone, Copy, PartialEq, Debug)]
pub enum Tok {
    None,
    U8(u8),
    U16(u16),
    U32(u32),
    U64(u64),
    Unit,
    Start(usize),
    End,
    Poison,
    NoneT,
    SomeT,
    Str(u8),
}

pub struct Tokens {
    pub t: [Tok; MAXTOK],
    pub n: usize,
    pub tuple_len: usize,
    depth: usize,
    overflow: bool,
}

impl Tokens {
    pub fn new() -> Self {
        Tokens { t: [Tok::None; MAXTOK], n: 0, tuple_len: usize::MAX, depth: 0, overflow: false }
    }
    pub fn push(&mut self, t: Tok) {
        if self.n < MAXTOK {
            self.t[self.n] = t;
            self.n += 1;
        } else {
            self.overflow = true;
        }
    }
    pub fn same_stream(&self, o: &Tokens) -> bool {
        if self.n != o.n || self.overflow || o.overflow {
            return false;
        }
        let mut i = 0;
        let mut ok = true;
        while i < MAXTOK {
            if i < self.n && self.t[i] != o.t[i] {
                ok = false;
            }
            i += 1;
        }
        ok
    }
    pub fn clone_tokens(&self) -> Tokens {
        Tokens { t: self.t, n: self.n, tuple_len: self.tuple_len, depth: 0, overflow: self.overflow }
    }
    pub fn truncate_at(&mut self, pos: usize) {
        if pos < self.n {
            self.n = pos;
        }
    }
    pub fn poison(&mut self, pos: usize) {
        if pos < self.n {
            self.t[pos] = Tok::Poison;
        }
    }
    pub fn append_extra(&mut self) {
        self.push(Tok::U8(0));
        self.tuple_len = self.tuple_len.wrapping_add(1);
    }
}

/// Expected encoding of a field value, written independently of serde.
pub trait TokVal {
    fn push_to(&self, out: &mut Tokens);
}
pub fn push_val<T: TokVal>(out: &mut Tokens, v: &T) {
    v.push_to(out)
}
impl TokVal for u8 {
    fn push_to(&self, o: &mut Tokens) {
        o.push(Tok::U8(*self))
    }
}
impl TokVal for u16 {
    fn push_to(&self, o: &mut Tokens) {
        o.push(Tok::U16(*self))
    }
}
impl TokVal for u32 {
    fn push_to(&self, o: &mut Tokens) {
        o.push(Tok::U32(*self))
    }
}
impl TokVal for u64 {
    fn push_to(&self, o: &mut Tokens) {
        o.push(Tok::U64(*self))
    }
}
impl TokVal for [u8; 3] {
    fn push_to(&self, o: &mut Tokens) {
        o.push(Tok::Start(3));
        o.push(Tok::U8(self[0]));
        o.push(Tok::U8(self[1]));
        o.push(Tok::U8(self[2]));
        o.push(Tok::End);
    }
}
impl TokVal for P12 {
    fn push_to(&self, o: &mut Tokens) {
        o.push(Tok::Start(3));
        o.push(Tok::U32(self.a));
        o.push(Tok::U32(self.b));
        o.push(Tok::U32(self.c));
        o.push(Tok::End);
    }
}
impl TokVal for P24 {
    fn push_to(&self, o: &mut Tokens) {
        o.push(Tok::Start(3));
        o.push(Tok::U64(self.a));
        o.push(Tok::U64(self.b));
        o.push(Tok::U64(self.c));
        o.push(Tok::End);
    }
}
impl TokVal for Option<u32> {
    fn push_to(&self, o: &mut Tokens) {
        match self {
            None => o.push(Tok::NoneT),
            Some(v) => {
                o.push(Tok::SomeT);
                o.push(Tok::U32(*v));
            }
        }
    }
}
impl TokVal for ZstA8 {
    fn push_to(&self, o: &mut Tokens) {
        o.push(Tok::Start(0));
        o.push(Tok::End);
    }
}
impl TokVal for Box<str> {
    fn push_to(&self, o: &mut Tokens) {
        o.push(Tok::Str(str_id(self)))
    }
}
impl TokVal for Zst {
    fn push_to(&self, o: &mut Tokens) {
        o.push(Tok::Unit)
    }
}
impl TokVal for Over16 {
    fn push_to(&self, o: &mut Tokens) {
        o.push(Tok::U64(self.0))
    }
}
impl TokVal for Tracked {
    fn push_to(&self, o: &mut Tokens) {
        o.push(Tok::U32(self.val))
    }
}
impl TokVal for TrackedBox {
    fn push_to(&self, o: &mut Tokens) {
        o.push(Tok::U16(*self.b))
    }
}
impl TokVal for ZstDrop {
    fn push_to(&self, o: &mut Tokens) {
        o.push(Tok::Unit)
    }
}

#[derive(Debug)]
pub struct FmtErr;
impl core::fmt::Display for FmtErr {
    fn fmt(&self, _f: &mut core::fmt::Formatter<'_>) -> core::fmt::Result {
        Ok(())
    }
}
impl std::error::Error for FmtErr {}
impl serde::ser::Error for FmtErr {
    fn custom<T: core::fmt::Display>(_msg: T) -> Self {
        FmtErr
    }
}
impl serde::de::Error for FmtErr {
    fn custom<T: core::fmt::Display>(_msg: T) -> Self {
        FmtErr
    }
    fn invalid_length(_len: usize, _exp: &dyn serde::de::Expected) -> Self {
        FmtErr
    }
    fn missing_field(_field: &'static str) -> Self {
        FmtErr
    }
}

// ------------------------------------------------------------------ serializer
pub struct Ser<'a> {
    pub out: &'a mut Tokens,
}
pub struct SerSeq<'a> {
    out: &'a mut Tokens,
    nested: bool,
}

macro_rules! ser_unsupported {
    ($($m:ident($($t:ty),*);)*) => { $( fn $m(self $(, _: $t)*) -> Result<(), FmtErr> { Err(FmtErr) } )* };
}

impl<'a> serde::Serializer for Ser<'a> {
    type Ok = ();
    type Error = FmtErr;
    type SerializeSeq = serde::ser::Impossible<(), FmtErr>;
    type SerializeTuple = SerSeq<'a>;
    type SerializeTupleStruct = serde::ser::Impossible<(), FmtErr>;
    type SerializeTupleVariant = serde::ser::Impossible<(), FmtErr>;
    type SerializeMap = serde::ser::Impossible<(), FmtErr>;
    type SerializeStruct = SerSeq<'a>;
    type SerializeStructVariant = serde::ser::Impossible<(), FmtErr>;

    fn serialize_u8(self, v: u8) -> Result<(), FmtErr> {
        self.out.push(Tok::U8(v));
        Ok(())
    }
    fn serialize_u16(self, v: u16) -> Result<(), FmtErr> {
        self.out.push(Tok::U16(v));
        Ok(())
    }
    fn serialize_u32(self, v: u32) -> Result<(), FmtErr> {
        self.out.push(Tok::U32(v));
        Ok(())
    }
    fn serialize_u64(self, v: u64) -> Result<(), FmtErr> {
        self.out.push(Tok::U64(v));
        Ok(())
    }
    fn serialize_unit(self) -> Result<(), FmtErr> {
        self.out.push(Tok::Unit);
        Ok(())
    }
    fn serialize_unit_struct(self, _n: &'static str) -> Result<(), FmtErr> {
        self.out.push(Tok::Unit);
        Ok(())
    }
    fn serialize_newtype_struct<T: ?Sized + serde::Serialize>(self, _n: &'static str, v: &T) -> Result<(), FmtErr> {
        v.serialize(self)
    }
    fn serialize_tuple(self, len: usize) -> Result<SerSeq<'a>, FmtErr> {
        let nested = self.out.depth > 0;
        if nested {
            self.out.push(Tok::Start(len));
        } else {
            self.out.tuple_len = len;
        }
        self.out.depth += 1;
        Ok(SerSeq { out: self.out, nested })
    }
    fn serialize_struct(self, _n: &'static str, len: usize) -> Result<SerSeq<'a>, FmtErr> {
        self.serialize_tuple(len)
    }
    ser_unsupported! {
        serialize_bool(bool); serialize_i8(i8); serialize_i16(i16); serialize_i32(i32); serialize_i64(i64);
        serialize_f32(f32); serialize_f64(f64); serialize_char(char); serialize_bytes(&[u8]);
    }
    fn serialize_str(self, v: &str) -> Result<(), FmtErr> {
        self.out.push(Tok::Str(str_id(v)));
        Ok(())
    }
    fn serialize_none(self) -> Result<(), FmtErr> {
        self.out.push(Tok::NoneT);
        Ok(())
    }
    fn serialize_some<T: ?Sized + serde::Serialize>(self, v: &T) -> Result<(), FmtErr> {
        self.out.push(Tok::SomeT);
        v.serialize(self)
    }
    fn serialize_unit_variant(self, _n: &'static str, _i: u32, _v: &'static str) -> Result<(), FmtErr> {
        Err(FmtErr)
    }
    fn serialize_newtype_variant<T: ?Sized + serde::Serialize>(self, _n: &'static str, _i: u32, _v: &'static str, _x: &T) -> Result<(), FmtErr> {
        Err(FmtErr)
    }
    fn serialize_seq(self, _l: Option<usize>) -> Result<Self::SerializeSeq, FmtErr> {
        Err(FmtErr)
    }
    fn serialize_tuple_struct(self, _n: &'static str, _l: usize) -> Result<Self::SerializeTupleStruct, FmtErr> {
        Err(FmtErr)
    }
    fn serialize_tuple_variant(self, _n: &'static str, _i: u32, _v: &'static str, _l: usize) -> Result<Self::SerializeTupleVariant, FmtErr> {
        Err(FmtErr)
    }
    fn serialize_map(self, _l: Option<usize>) -> Result<Self::SerializeMap, FmtErr> {
        Err(FmtErr)
    }
    fn serialize_struct_variant(self, _n: &'static str, _i: u32, _v: &'static str, _l: usize) -> Result<Self::SerializeStructVariant, FmtErr> {
        Err(FmtErr)
    }
}

impl<'a> SerializeTuple for SerSeq<'a> {
    type Ok = ();
    type Error = FmtErr;
    fn serialize_element<T: ?Sized + serde::Serialize>(&mut self, v: &T) -> Result<(), FmtErr> {
        v.serialize(Ser { out: &mut *self.out })
    }
    fn end(self) -> Result<(), FmtErr> {
        self.out.depth -= 1;
        if self.nested {
            self.out.push(Tok::End);
        }
        Ok(())
    }
}
impl<'a> SerializeStruct for SerSeq<'a> {
    type Ok = ();
    type Error = FmtErr;
    fn serialize_field<T: ?Sized + serde::Serialize>(&mut self, _k: &'static str, v: &T) -> Result<(), FmtErr> {
        v.serialize(Ser { out: &mut *self.out })
    }
    fn end(self) -> Result<(), FmtErr> {
        SerializeTuple::end(self)
    }
}

// ------------------------------------------------------------------ deserializer
pub struct De<'a> {
    toks: &'a Tokens,
    pos: core::cell::Cell<usize>,
    depth: core::cell::Cell<usize>,
    self_describing: bool,
}

impl<'a> De<'a> {
    pub fn new(toks: &'a Tokens, self_describing: bool) -> Self {
        De { toks, pos: core::cell::Cell::new(0), depth: core::cell::Cell::new(0), self_describing }
    }
    fn peek(&self) -> Tok {
        let p = self.pos.get();
        if p < self.toks.n && p < MAXTOK {
            self.toks.t[p]
        } else {
            Tok::None
        }
    }
    fn next(&self) -> Tok {
        let t = self.peek();
        if t != Tok::None {
            self.pos.set(self.pos.get() + 1);
        }
        t
    }
}

/// Entry point: what `serde_json::from_str` / `bincode::deserialize` are to their formats.
pub fn from_tokens<'a, T: serde::Deserialize<'a>>(de: De<'a>) -> Result<T, FmtErr> {
    let v = T::deserialize(&de)?;
    if de.self_describing && de.pos.get() != de.toks.n {
        // trailing elements: the format rejects them (the decoded value is dropped here)
        return Err(FmtErr);
    }
    Ok(v)
}

struct Seq<'d, 'a> {
    de: &'d De<'a>,
    remaining: usize,
    outer: bool,
}

impl<'de, 'd, 'a> SeqAccess<'de> for Seq<'d, 'a> {
    type Error = FmtErr;
    fn next_element_seed<S: DeserializeSeed<'de>>(&mut self, seed: S) -> Result<Option<S::Value>, FmtErr> {
        if self.de.self_describing {
            let end = if self.outer { self.de.peek() == Tok::None } else { self.de.peek() == Tok::End };
            if end {
                return Ok(None);
            }
        } else {
            if self.remaining == 0 {
                return Ok(None);
            }
            self.remaining -= 1;
        }
        seed.deserialize(self.de).map(Some)
    }
    fn size_hint(&self) -> Option<usize> {
        if self.de.self_describing {
            None
        } else {
            Some(self.remaining)
        }
    }
}

macro_rules! de_unsupported {
    ($($m:ident)*) => { $( fn $m<V: Visitor<'de>>(self, _v: V) -> Result<V::Value, FmtErr> { Err(FmtErr) } )* };
}

impl<'de, 'd, 'a> serde::Deserializer<'de> for &'d De<'a> {
    type Error = FmtErr;
    fn deserialize_u8<V: Visitor<'de>>(self, v: V) -> Result<V::Value, FmtErr> {
        match self.next() {
            Tok::U8(x) => v.visit_u8(x),
            _ => Err(FmtErr),
        }
    }
    fn deserialize_u16<V: Visitor<'de>>(self, v: V) -> Result<V::Value, FmtErr> {
        match self.next() {
            Tok::U16(x) => v.visit_u16(x),
            _ => Err(FmtErr),
        }
    }
    fn deserialize_u32<V: Visitor<'de>>(self, v: V) -> Result<V::Value, FmtErr> {
        match self.next() {
            Tok::U32(x) => v.visit_u32(x),
            _ => Err(FmtErr),
        }
    }
    fn deserialize_u64<V: Visitor<'de>>(self, v: V) -> Result<V::Value, FmtErr> {
        match self.next() {
            Tok::U64(x) => v.visit_u64(x),
            _ => Err(FmtErr),
        }
    }
    fn deserialize_unit<V: Visitor<'de>>(self, v: V) -> Result<V::Value, FmtErr> {
        match self.next() {
            Tok::Unit => v.visit_unit(),
            _ => Err(FmtErr),
        }
    }
    fn deserialize_unit_struct<V: Visitor<'de>>(self, _n: &'static str, v: V) -> Result<V::Value, FmtErr> {
        self.deserialize_unit(v)
    }
    fn deserialize_newtype_struct<V: Visitor<'de>>(self, _n: &'static str, v: V) -> Result<V::Value, FmtErr> {
        v.visit_newtype_struct(self)
    }
    fn deserialize_tuple<V: Visitor<'de>>(self, len: usize, v: V) -> Result<V::Value, FmtErr> {
        let outer = self.depth.get() == 0;
        if !outer {
            match self.next() {
                Tok::Start(l) if l == len => {}
                _ => return Err(FmtErr),
            }
        }
        self.depth.set(self.depth.get() + 1);
        let r = v.visit_seq(Seq { de: self, remaining: len, outer });
        self.depth.set(self.depth.get() - 1);
        match r {
            Ok(val) => {
                if !outer {
                    match self.next() {
                        Tok::End => Ok(val),
                        _ => Err(FmtErr), // `val` is dropped here
                    }
                } else {
                    Ok(val)
                }
            }
            Err(e) => Err(e),
        }
    }
    fn deserialize_struct<V: Visitor<'de>>(self, _n: &'static str, fields: &'static [&'static str], v: V) -> Result<V::Value, FmtErr> {
        self.deserialize_tuple(fields.len(), v)
    }
    fn deserialize_tuple_struct<V: Visitor<'de>>(self, _n: &'static str, len: usize, v: V) -> Result<V::Value, FmtErr> {
        self.deserialize_tuple(len, v)
    }
    de_unsupported! {
        deserialize_any deserialize_bool deserialize_i8 deserialize_i16 deserialize_i32 deserialize_i64
        deserialize_f32 deserialize_f64 deserialize_char deserialize_bytes
        deserialize_byte_buf deserialize_seq deserialize_map deserialize_identifier
        deserialize_ignored_any
    }
    fn deserialize_str<V: Visitor<'de>>(self, v: V) -> Result<V::Value, FmtErr> {
        match self.next() {
            Tok::Str(id) if (id as usize) < STRS.len() => {
                if self.self_describing {
                    // like a text format whose string had to be unescaped: the visitor gets a transient string
                    v.visit_str(STRS[id as usize])
                } else {
                    // like a binary format decoding from a slice: the input lends the string
                    v.visit_borrowed_str(STRS[id as usize])
                }
            }
            _ => Err(FmtErr),
        }
    }
    fn deserialize_string<V: Visitor<'de>>(self, v: V) -> Result<V::Value, FmtErr> {
        self.deserialize_str(v)
    }
    fn deserialize_option<V: Visitor<'de>>(self, v: V) -> Result<V::Value, FmtErr> {
        match self.next() {
            Tok::NoneT => v.visit_none(),
            Tok::SomeT => v.visit_some(self),
            _ => Err(FmtErr),
        }
    }
    fn deserialize_enum<V: Visitor<'de>>(self, _n: &'static str, _vs: &'static [&'static str], _v: V) -> Result<V::Value, FmtErr> {
        Err(FmtErr)
    }
}
