//! Native replay of a solver counterexample against the real generated code + runtime.
//! usage: replay <file>  (line 1: harness name; then one nondeterministic value per line as
//! comma-separated little-endian bytes, in draw order)
#[cfg(kani)]
fn main() {}

#[cfg(not(kani))]
fn main() {
    let path = std::env::args().nth(1).expect("replay file");
    let text = std::fs::read_to_string(&path).expect("read replay file");
    let mut lines = text.lines();
    let name = lines.next().expect("harness name").trim().to_string();
    let mut q = Vec::new();
    for l in lines {
        let l = l.trim();
        if l.is_empty() || l.starts_with('#') {
            continue;
        }
        q.push(l.split(',').map(|b| b.trim().parse::<u8>().expect("byte")).collect::<Vec<u8>>());
    }
    *kgen_types::nd::QUEUE.lock().unwrap() = q;
    std::panic::set_hook(Box::new(|info| {
        use std::io::Write;
        let msg = if let Some(s) = info.payload().downcast_ref::<&str>() {
            s.to_string()
        } else if let Some(s) = info.payload().downcast_ref::<String>() {
            s.clone()
        } else {
            "panic with a non-string payload".to_string()
        };
        println!("PANIC: {}", msg.replace('\n', " "));
        let _ = std::io::stdout().flush();
    }));
    let r = std::panic::catch_unwind(|| kgen::run_by_name(&name));
    match r {
        Ok(true) => {}
        Ok(false) => {
            println!("REPLAY-ERROR unknown harness {}", name);
            std::process::exit(3);
        }
        Err(p) => {
            let msg = if let Some(s) = p.downcast_ref::<&str>() {
                s.to_string()
            } else if let Some(s) = p.downcast_ref::<String>() {
                s.clone()
            } else {
                "panic".to_string()
            };
            println!("FAIL: {}", msg.replace('\n', " "));
            let _ = msg;
        }
    }
    if *kgen_types::nd::ASSUME_BROKEN.lock().unwrap() {
        println!("ASSUME_BROKEN");
    }
    for r in kgen_types::nd::REACHED.lock().unwrap().iter() {
        println!("REACHED: {}", r);
    }
    let fails = kgen_types::nd::FAILS.lock().unwrap();
    println!("REPLAY-DONE fails={}", fails.len());
}
