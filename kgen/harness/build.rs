//! Runs the *real* builder and generator of /repo/truc on a family of definitions and writes,
//! for each definition, (a) the generated module and (b) harness source derived from the
//! definition's public structure only (names, types, variant membership, may-be-uninit flags) —
//! never from offsets, so the harnesses are black-box with respect to layout.

use std::{env, fmt::Write as _, fs, path::PathBuf};

use kgen_family::*;
use kgen_types::*;
use truc::{
    generator::{
        config::GeneratorConfig,
        fragment::{clone::CloneImplGenerator, serde::SerdeImplGenerator, FragmentGenerator},
        generate,
    },
    record::{
        definition::{
            builder::native::{variant, NativeRecordDefinitionBuilder},
            DatumId, NativeDatumDetails, RecordDefinition,
        },
        type_resolver::HostTypeResolver,
    },
};

#[derive(Clone)]
struct F {
    id: usize,
    name: String,
    ty: String,
    uninit: bool,
}

struct V {
    fields: Vec<F>,
    minus: Vec<F>,
    plus: Vec<F>,
}

fn structure(d: &RecordDefinition<NativeDatumDetails>) -> Vec<V> {
    let mut out: Vec<V> = Vec::new();
    let mut prev: Vec<F> = Vec::new();
    for v in d.variants() {
        let fields: Vec<F> = v
            .data_sorted()
            .map(|id| {
                let dd = &d[id];
                F {
                    id: format!("{}", id).parse().unwrap(),
                    name: dd.name().to_string(),
                    ty: dd.details().type_name().to_string(),
                    uninit: dd.details().allow_uninit(),
                }
            })
            .collect();
        let minus = prev.iter().filter(|p| !fields.iter().any(|f| f.id == p.id)).cloned().collect();
        let plus = fields.iter().filter(|f| !prev.iter().any(|p| p.id == f.id)).cloned().collect();
        prev = fields.clone();
        out.push(V { fields, minus, plus });
    }
    out
}

thread_local! { static SITE: std::cell::Cell<usize> = std::cell::Cell::new(0); }
fn reset_sites() {
    SITE.with(|s| s.set(0));
}
fn site_for(f: &F) -> usize {
    if f.ty.contains("Tracked") {
        next_site()
    } else {
        255
    }
}
fn next_site() -> usize {
    SITE.with(|s| {
        let v = s.get();
        s.set(v + 1);
        assert!(v < kgen_types::DYN_BASE, "too many creation sites in one harness");
        v
    })
}

/// variable names: value `x<id>`, snapshot `s<id>`
fn xv(f: &F) -> String {
    format!("x{}", f.id)
}
fn sv(f: &F) -> String {
    format!("s{}", f.id)
}

fn decl(f: &F, w: &mut String) {
    writeln!(w, "        let {x}: {t} = <{t} as Val>::sym_at({site}); let mut {s} = Val::snap(&{x});", x = xv(f), s = sv(f), t = f.ty, site = site_for(f)).unwrap();
}

fn check_fields(var: &str, fields: &[F], ctx: &str, w: &mut String) {
    for f in fields {
        writeln!(
            w,
            "        chk!(Val::snap({var}.{n}()) == {s}, \"{ctx}: field `{n}` read back differs from the value put in\");",
            var = var, n = f.name, s = sv(f), ctx = ctx
        )
        .unwrap();
    }
}

/// `let <var>: CappedRecord<v><CAP> = new | new_uninit + writes`
fn construct(vi: usize, v: &V, var: &str, w: &mut String) {
    let all = v.fields.iter().map(|f| format!("{}: {}", f.name, xv(f))).collect::<Vec<_>>().join(", ");
    let mand = v.fields.iter().filter(|f| !f.uninit).map(|f| format!("{}: {}", f.name, xv(f))).collect::<Vec<_>>().join(", ");
    let has_uninit = v.fields.iter().any(|f| f.uninit);
    writeln!(w, "        let {var}: m::CappedRecord{vi}<CAP> = if nd::bool() {{").unwrap();
    writeln!(w, "            m::CappedRecord{vi}::new(m::UnpackedRecord{vi} {{ {all} }})").unwrap();
    writeln!(w, "        }} else {{").unwrap();
    writeln!(
        w,
        "            let {m}r = m::CappedRecord{vi}::new_uninit(m::UnpackedUninitRecord{vi} {{ {mand} }});",
        m = if has_uninit { "mut " } else { "" }
    )
    .unwrap();
    for f in v.fields.iter().filter(|f| f.uninit) {
        writeln!(w, "            *r.{n}_mut() = {x};", n = f.name, x = xv(f)).unwrap();
    }
    writeln!(w, "            r").unwrap();
    writeln!(w, "        }};").unwrap();
}

fn write_step(fields: &[F], var: &str, w: &mut String) {
    if fields.is_empty() {
        return;
    }
    writeln!(w, "        {{ let wi = nd::u8(); nd::assume((wi as usize) < {});", fields.len()).unwrap();
    writeln!(w, "          match wi {{").unwrap();
    for (i, f) in fields.iter().enumerate() {
        let pat = if i + 1 == fields.len() { "_".to_string() } else { i.to_string() };
        writeln!(
            w,
            "            {pat} => {{ let nv: {t} = <{t} as Val>::sym_at({site}); let old = {s}; {s} = Val::snap(&nv); *{var}.{n}_mut() = nv; \
             if <{t} as Val>::DROPPABLE {{ chk!(is_dropped_once(<{t} as Val>::ident(&old)), \"C06: a value overwritten through a mutable accessor was not destroyed exactly once\"); }} }}",
            pat = pat, t = f.ty, s = sv(f), n = f.name, var = var, site = site_for(f)
        )
        .unwrap();
    }
    writeln!(w, "          }}").unwrap();
    writeln!(w, "        }}").unwrap();
}

fn end_of_life(vi: usize, v: &V, var: &str, w: &mut String) {
    writeln!(w, "        if nd::bool() {{").unwrap();
    writeln!(w, "            drop({var});").unwrap();
    writeln!(w, "        }} else {{").unwrap();
    writeln!(w, "            let u: m::UnpackedRecord{vi} = {var}.unpack();").unwrap();
    for f in &v.fields {
        writeln!(
            w,
            "            chk!(Val::snap(&u.{n}) == {s}, \"C04: unpack returned a different value for field `{n}`\");",
            n = f.name, s = sv(f)
        )
        .unwrap();
        if true {
            writeln!(
                w,
                "            if <{t} as Val>::DROPPABLE {{ chk!(is_live(<{t} as Val>::ident(&{s})), \"C06: unpacked value of field `{n}` is not live (already destroyed)\"); }}",
                t = f.ty, s = sv(f), n = f.name
            )
            .unwrap();
        }
    }
    writeln!(w, "            drop(u);").unwrap();
    writeln!(w, "        }}").unwrap();
    writeln!(w, "        chk!(all_dropped_once(), \"C06: at the end of the record's life some stored value was not destroyed exactly once\");").unwrap();
    writeln!(w, "        chk!(unsafe {{ ZD_CREATED == ZD_DROPPED }}, \"C06/C07: zero-size droppable values created and destroyed differ in number (one was destroyed twice, read after it was moved out, or leaked)\");").unwrap();
}

fn gen_c04(vi: usize, v: &V, l_writes: usize, w: &mut String) {
    writeln!(w, "    /// C04/C06/C07: variant {vi}: construct, place, read, {l_writes} symbolic writes, end of life.").unwrap();
    writeln!(w, "    pub fn c04_v{vi}<const CAP: usize>(k_mult: usize) {{").unwrap();
    reset_sites();
    writeln!(w, "        reset_all();").unwrap();
    for f in &v.fields {
        decl(f, w);
    }
    construct(vi, v, "r", w);
    writeln!(w, "        let r = crate::placed(r, k_mult, |r: &mut m::CappedRecord{vi}<CAP>| {{").unwrap();
    check_fields("r", &v.fields, "C04", w);
    for _ in 0..l_writes {
        write_step(&v.fields, "r", w);
        check_fields("r", &v.fields, "C04 (after a write through another accessor)", w);
    }
    writeln!(w, "        }});").unwrap();
    check_fields("r", &v.fields, "C04 (after moving the record)", w);
    end_of_life(vi, v, "r", w);
    writeln!(w, "        reach!(\"end of c04 harness\");").unwrap();
    writeln!(w, "    }}").unwrap();
}

fn gen_heap(vi: usize, v: &V, w: &mut String) {
    writeln!(w, "    /// C04/C07: variant {vi} in a Box and in a Vec element: reads only.").unwrap();
    writeln!(w, "    pub fn heap_v{vi}<const CAP: usize>() {{").unwrap();
    reset_sites();
    writeln!(w, "        reset_all();").unwrap();
    for f in &v.fields {
        decl(f, w);
    }
    construct(vi, v, "r", w);
    writeln!(w, "        let r = crate::heap_placed(r, |r: &m::CappedRecord{vi}<CAP>| {{").unwrap();
    check_fields("r", &v.fields, "C04 (Box / Vec element)", w);
    writeln!(w, "        }});").unwrap();
    end_of_life(vi, v, "r", w);
    writeln!(w, "        reach!(\"end of heap placement harness\");").unwrap();
    writeln!(w, "    }}").unwrap();
}

/// Field names of `Record<vi>AndUnpackedOut` as the generated module declares them (interface
/// shape only; used so that a module that hands back the wrong set of fields still compiles and
/// is reported as a violation instead of a build failure).
fn out_fields(code: &str, vi: usize) -> Vec<String> {
    let head = format!("pub struct Record{}AndUnpackedOut<const CAP: usize> {{", vi);
    let mut out = Vec::new();
    if let Some(i) = code.find(&head) {
        let rest = &code[i + head.len()..];
        let end = rest.find('}').unwrap_or(rest.len());
        for line in rest[..end].lines() {
            let line = line.trim();
            if let Some(r) = line.strip_prefix("pub ") {
                if let Some(c) = r.find(':') {
                    let n = r[..c].trim();
                    if n != "record" {
                        out.push(n.to_string());
                    }
                }
            }
        }
    }
    out
}

fn gen_chain(vs: &[V], code: &str, w: &mut String) {
    writeln!(w, "    /// C05/C06/C07: walk from the first to the last variant, symbolic form at every link.").unwrap();
    writeln!(w, "    pub fn chain<const CAP: usize>() {{").unwrap();
    reset_sites();
    writeln!(w, "        reset_all();").unwrap();
    for f in &vs[0].fields {
        decl(f, w);
    }
    construct(0, &vs[0], "r0", w);
    check_fields("r0", &vs[0].fields, "C04", w);
    for vi in 1..vs.len() {
        let v = &vs[vi];
        let prev = format!("r{}", vi - 1);
        let cur = format!("r{}", vi);
        for f in &v.plus {
            decl(f, w);
        }
        let all = v.plus.iter().map(|f| format!("{}: {}", f.name, xv(f))).collect::<Vec<_>>().join(", ");
        let mand = v.plus.iter().filter(|f| !f.uninit).map(|f| format!("{}: {}", f.name, xv(f))).collect::<Vec<_>>().join(", ");
        let has_uninit = v.plus.iter().any(|f| f.uninit);
        let mutr = if has_uninit { "mut " } else { "" };
        writeln!(w, "        let form{vi} = nd::u8(); nd::assume(form{vi} < 4);").unwrap();
        writeln!(w, "        let {cur}: m::CappedRecord{vi}<CAP> = match form{vi} {{").unwrap();
        // form 0: simple, full
        writeln!(w, "            0 => m::CappedRecord{vi}::from(({prev}, m::UnpackedRecordIn{vi} {{ {all} }})),").unwrap();
        // form 1: simple, uninit
        writeln!(w, "            1 => {{ let {mutr}r = m::CappedRecord{vi}::from(({prev}, m::UnpackedUninitRecordIn{vi} {{ {mand} }}));").unwrap();
        for f in v.plus.iter().filter(|f| f.uninit) {
            writeln!(w, "                *r.{n}_mut() = {x};", n = f.name, x = xv(f)).unwrap();
        }
        writeln!(w, "                r }}").unwrap();
        // forms 2/3: and-out
        for (fno, full) in [(2, true), (3, false)] {
            let pat = if fno == 2 { "2".to_string() } else { "_".to_string() };
            if full {
                writeln!(w, "            {pat} => {{ let o = m::Record{vi}AndUnpackedOut::from(({prev}, m::UnpackedRecordIn{vi} {{ {all} }}));").unwrap();
            } else {
                writeln!(w, "            {pat} => {{ let o = m::Record{vi}AndUnpackedOut::from(({prev}, m::UnpackedUninitRecordIn{vi} {{ {mand} }}));").unwrap();
            }
            let declared = out_fields(code, vi);
            let handed: Vec<&F> = v.minus.iter().filter(|f| declared.contains(&f.name)).collect();
            let outs = handed.iter().map(|f| format!("{}: o{}", f.name, f.id)).collect::<Vec<_>>().join(", ");
            let comma = if handed.is_empty() { "" } else { ", " };
            writeln!(w, "                let m::Record{vi}AndUnpackedOut {{ record{comma}{outs}, .. }} = o;").unwrap();
            for f in v.minus.iter().filter(|f| !declared.contains(&f.name)) {
                writeln!(w, "                chk!(false, \"C05: removed field `{n}` is not handed back by the conversion form that returns removed data\");", n = f.name).unwrap();
            }
            for n in declared.iter().filter(|n| !v.minus.iter().any(|f| &f.name == *n)) {
                writeln!(w, "                chk!(false, \"C05: the conversion hands back a field `{n}` that was not removed\");", n = n).unwrap();
            }
            for f in handed {
                writeln!(
                    w,
                    "                chk!(Val::snap(&o{id}) == {s}, \"C05: removed field `{n}` was handed back with a different value\");",
                    id = f.id, s = sv(f), n = f.name
                )
                .unwrap();
                writeln!(
                    w,
                    "                if <{t} as Val>::DROPPABLE {{ chk!(is_live(<{t} as Val>::ident(&{s})), \"C06: removed field `{n}` handed back by the conversion is not live\"); }}",
                    t = f.ty, s = sv(f), n = f.name
                )
                .unwrap();
                writeln!(w, "                drop(o{id});", id = f.id).unwrap();
            }
            if full || !has_uninit {
                writeln!(w, "                record }}").unwrap();
            } else {
                writeln!(w, "                let mut record = record;").unwrap();
                for f in v.plus.iter().filter(|f| f.uninit) {
                    writeln!(w, "                *record.{n}_mut() = {x};", n = f.name, x = xv(f)).unwrap();
                }
                writeln!(w, "                record }}").unwrap();
            }
        }
        writeln!(w, "        }};").unwrap();
        // removed fields are gone (destroyed by the conversion or by the harness after hand-back)
        for f in &v.minus {
            writeln!(
                w,
                "        if <{t} as Val>::DROPPABLE {{ chk!(is_dropped_once(<{t} as Val>::ident(&{s})), \"C06: a field removed by the conversion was not destroyed exactly once\"); }}",
                t = f.ty, s = sv(f)
            )
            .unwrap();
        }
        check_fields(&cur, &v.fields, "C05", w);
        // one symbolic write between links
        writeln!(w, "        let mut {cur} = {cur};").unwrap();
        write_step(&v.fields, &cur, w);
        check_fields(&cur, &v.fields, "C05 (after a write)", w);
    }
    let last = vs.len() - 1;
    end_of_life(last, &vs[last], &format!("r{}", last), w);
    writeln!(w, "        reach!(\"end of chain harness\");").unwrap();
    writeln!(w, "    }}").unwrap();
}

fn gen_clone(vi: usize, v: &V, w: &mut String) {
    writeln!(w, "    /// C16: clone / clone_from of variant {vi}.").unwrap();
    writeln!(w, "    pub fn c16_v{vi}<const CAP: usize>() {{").unwrap();
    reset_sites();
    writeln!(w, "        reset_all();").unwrap();
    for f in &v.fields {
        decl(f, w);
    }
    construct(vi, v, "r", w);
    writeln!(w, "        let mut r = r;").unwrap();
    writeln!(w, "        let mut c = r.clone();").unwrap();
    for f in &v.fields {
        writeln!(
            w,
            "        chk!(<{t} as Val>::same_value(&Val::snap(c.{n}()), &{s}), \"C16: cloned record has a different value in field `{n}`\");",
            t = f.ty, n = f.name, s = sv(f)
        )
        .unwrap();
        writeln!(
            w,
            "        if <{t} as Val>::DROPPABLE {{ chk!(<{t} as Val>::ident(&Val::snap(c.{n}())) != <{t} as Val>::ident(&{s}), \"C16: clone shares an owned value with its source (field `{n}`)\"); }}",
            t = f.ty, n = f.name, s = sv(f)
        )
        .unwrap();
    }
    // snapshots of the clone
    for f in &v.fields {
        writeln!(w, "        let mut c{s} = Val::snap(c.{n}());", s = sv(f), n = f.name).unwrap();
    }
    // mutate one of the two, the other must be intact
    writeln!(w, "        let side = nd::bool();").unwrap();
    writeln!(w, "        if side {{").unwrap();
    write_step(&v.fields, "r", w);
    writeln!(w, "        }} else {{").unwrap();
    // write into clone: temporarily rename snapshots
    {
        let cf: Vec<F> = v.fields.clone();
        if !cf.is_empty() {
            writeln!(w, "        {{ let wi = nd::u8(); nd::assume((wi as usize) < {});", cf.len()).unwrap();
            writeln!(w, "          match wi {{").unwrap();
            for (i, f) in cf.iter().enumerate() {
                let pat = if i + 1 == cf.len() { "_".to_string() } else { i.to_string() };
                writeln!(
                    w,
                    "            {pat} => {{ let nv: {t} = <{t} as Val>::sym_at({site}); c{s} = Val::snap(&nv); *c.{n}_mut() = nv; }}",
                    pat = pat, t = f.ty, s = sv(f), n = f.name, site = site_for(f)
                )
                .unwrap();
            }
            writeln!(w, "          }}").unwrap();
            writeln!(w, "        }}").unwrap();
        }
    }
    writeln!(w, "        }}").unwrap();
    for f in &v.fields {
        writeln!(w, "        chk!(Val::snap(r.{n}()) == {s}, \"C16: mutating one of source/clone changed the source (field `{n}`)\");", n = f.name, s = sv(f)).unwrap();
        writeln!(w, "        chk!(Val::snap(c.{n}()) == c{s}, \"C16: mutating one of source/clone changed the clone (field `{n}`)\");", n = f.name, s = sv(f)).unwrap();
    }
    // clone_from: target previous contents destroyed exactly once, target equals source
    writeln!(w, "        if nd::bool() {{").unwrap();
    writeln!(w, "            c.clone_from(&r);").unwrap();
    for f in &v.fields {
        writeln!(
            w,
            "            chk!(<{t} as Val>::same_value(&Val::snap(c.{n}()), &{s}), \"C16: clone_from left a different value in field `{n}`\");",
            t = f.ty, n = f.name, s = sv(f)
        )
        .unwrap();
        writeln!(w, "            chk!(Val::snap(r.{n}()) == {s}, \"C16: clone_from changed its source (field `{n}`)\");", n = f.name, s = sv(f)).unwrap();
        writeln!(
            w,
            "            if <{t} as Val>::DROPPABLE {{ chk!(is_dropped_once(<{t} as Val>::ident(&c{s})) || <{t} as Val>::ident(&Val::snap(c.{n}())) == <{t} as Val>::ident(&c{s}), \"C16: clone_from leaked or double-dropped the target's previous value (field `{n}`)\"); }}",
            t = f.ty, n = f.name, s = sv(f)
        )
        .unwrap();
    }
    writeln!(w, "        }}").unwrap();
    // drop one, the other stays readable
    writeln!(w, "        if nd::bool() {{").unwrap();
    writeln!(w, "            drop(c);").unwrap();
    for f in &v.fields {
        writeln!(w, "            chk!(Val::snap(r.{n}()) == {s}, \"C16: dropping the clone damaged the source (field `{n}`)\");", n = f.name, s = sv(f)).unwrap();
        writeln!(w, "            if <{t} as Val>::DROPPABLE {{ chk!(is_live(<{t} as Val>::ident(&{s})), \"C16: dropping the clone destroyed a value of the source (field `{n}`)\"); }}", t = f.ty, n = f.name, s = sv(f)).unwrap();
    }
    writeln!(w, "            drop(r);").unwrap();
    writeln!(w, "        }} else {{").unwrap();
    writeln!(w, "            drop(r);").unwrap();
    for f in &v.fields {
        writeln!(w, "            let _ = Val::snap(c.{n}());", n = f.name).unwrap();
    }
    writeln!(w, "            drop(c);").unwrap();
    writeln!(w, "        }}").unwrap();
    writeln!(w, "        chk!(all_dropped_once(), \"C16/C06: after dropping source and clone some value was not destroyed exactly once\");").unwrap();
    writeln!(w, "        chk!(unsafe {{ ZD_CREATED == ZD_DROPPED }}, \"C16/C06: zero-size droppable values created and destroyed differ in number\");").unwrap();
    writeln!(w, "        reach!(\"end of clone harness\");").unwrap();
    writeln!(w, "    }}").unwrap();
}

fn gen_serde(vi: usize, v: &V, w: &mut String) {
    writeln!(w, "    /// C15: serialise / deserialise variant {vi} through the harness token formats.").unwrap();
    writeln!(w, "    pub fn c15_v{vi}<const CAP: usize>() {{").unwrap();
    reset_sites();
    writeln!(w, "        reset_all();").unwrap();
    for f in &v.fields {
        decl(f, w);
    }
    construct(vi, v, "r", w);
    writeln!(w, "        let mut toks = crate::fmt::Tokens::new();").unwrap();
    writeln!(w, "        let ser = serde::Serialize::serialize(&r, crate::fmt::Ser {{ out: &mut toks }});").unwrap();
    writeln!(w, "        chk!(ser.is_ok(), \"C15: serialising a record failed\");").unwrap();
    writeln!(w, "        chk!(toks.tuple_len == {}, \"C15: record not serialised as a tuple of all its fields\");", v.fields.len()).unwrap();
    // expected token sequence in declaration (id) order
    writeln!(w, "        let mut exp = crate::fmt::Tokens::new();").unwrap();
    for f in &v.fields {
        writeln!(w, "        crate::fmt::push_val(&mut exp, r.{n}());", n = f.name).unwrap();
    }
    writeln!(w, "        chk!(toks.same_stream(&exp), \"C15: fields are not encoded in declaration order with their values\");").unwrap();
    writeln!(w, "        let live_before = live_count();").unwrap();
    writeln!(w, "        let zd_before = unsafe {{ ZD_CREATED - ZD_DROPPED }};").unwrap();
    // fault selection
    writeln!(w, "        let self_describing = nd::bool();").unwrap();
    writeln!(w, "        let fault = nd::u8(); nd::assume(fault < 4);   // 0 none, 1 truncated, 2 undecodable element, 3 extra element").unwrap();
    writeln!(w, "        let pos = nd::usize(); nd::assume(pos < toks.n.max(1));").unwrap();
    writeln!(w, "        let mut input = toks.clone_tokens();").unwrap();
    writeln!(w, "        let mut expect_err = false;").unwrap();
    writeln!(w, "        match fault {{").unwrap();
    writeln!(w, "            1 => {{ if toks.n > 0 {{ input.truncate_at(pos); expect_err = true; }} }}").unwrap();
    writeln!(w, "            2 => {{ if toks.n > 0 {{ input.poison(pos); expect_err = true; }} }}").unwrap();
    writeln!(w, "            3 => {{ input.append_extra(); expect_err = self_describing; }}").unwrap();
    writeln!(w, "            _ => {{}}").unwrap();
    writeln!(w, "        }}").unwrap();
    writeln!(w, "        let de = crate::fmt::De::new(&input, self_describing);").unwrap();
    writeln!(w, "        let back: Result<m::CappedRecord{vi}<CAP>, crate::fmt::FmtErr> = crate::fmt::from_tokens(de);").unwrap();
    writeln!(w, "        match back {{").unwrap();
    writeln!(w, "            Ok(b) => {{").unwrap();
    writeln!(w, "                chk!(!expect_err, \"C15: malformed input (too few / undecodable / too many elements) was accepted\");").unwrap();
    for f in &v.fields {
        writeln!(
            w,
            "                chk!(<{t} as Val>::same_value(&Val::snap(b.{n}()), &{s}), \"C15: round trip changed the value of field `{n}`\");",
            t = f.ty, n = f.name, s = sv(f)
        )
        .unwrap();
    }
    writeln!(w, "                drop(b);").unwrap();
    writeln!(w, "            }}").unwrap();
    writeln!(w, "            Err(_) => {{").unwrap();
    writeln!(w, "                chk!(expect_err, \"C15: well-formed input was rejected\");").unwrap();
    writeln!(w, "            }}").unwrap();
    writeln!(w, "        }}").unwrap();
    writeln!(w, "        chk!(live_count() == live_before, \"C15: a decoded value was leaked (or a live one destroyed) by deserialisation\");").unwrap();
    writeln!(w, "        chk!(unsafe {{ ZD_CREATED - ZD_DROPPED }} == zd_before, \"C15: a decoded zero-size value was leaked by deserialisation\");").unwrap();
    writeln!(w, "        drop(r);").unwrap();
    writeln!(w, "        chk!(all_dropped_once(), \"C15/C06: some value was not destroyed exactly once\");").unwrap();
    writeln!(w, "        reach!(\"end of serde harness\");").unwrap();
    writeln!(w, "    }}").unwrap();
}

fn main() {
    let out_dir = PathBuf::from(env::var("OUT_DIR").unwrap());
    let mut all = String::new();
    let mut index = String::new();
    let mut dispatch = String::new();
    let l_writes: usize = env::var("KGEN_WRITES").ok().and_then(|s| s.parse().ok()).unwrap_or(2);
    writeln!(index, "# definition\ttier\tharness\tkind\tvariants").unwrap();
    let skip: Vec<String> = env::var("KGEN_SKIP").unwrap_or_default().split(',').filter(|x| !x.is_empty()).map(|x| x.to_string()).collect();
    for def in family() {
        if def.tier == "genobl" || skip.iter().any(|x| x == def.name) {
            continue;
        }
        let d = build(&def);
        if d.max_size() > (1usize << 24) {
            // published as MAX_SIZE: no record type of that capacity can exist
            println!("cargo:warning=KGEN-ABSURD-CAPACITY definition {} max_size {}", def.name, d.max_size());
            panic!("KGEN-ABSURD-CAPACITY definition {} max_size {}", def.name, d.max_size());
        }
        let full = |extra: Vec<Box<dyn FragmentGenerator>>| GeneratorConfig::default_with_custom_generators(extra);
        // module used by the harnesses: all fragments on
        let code = generate(&d, &full(vec![Box::new(CloneImplGenerator), Box::new(SerdeImplGenerator)]));
        fs::write(out_dir.join(format!("{}.rs", def.name)), &code).unwrap();
        // other fragment selections: compiled only (C13 by-product)
        fs::write(out_dir.join(format!("{}__default.rs", def.name)), generate(&d, &GeneratorConfig::default())).unwrap();
        fs::write(out_dir.join(format!("{}__clone.rs", def.name)), generate(&d, &full(vec![Box::new(CloneImplGenerator)]))).unwrap();
        fs::write(out_dir.join(format!("{}__serde.rs", def.name)), generate(&d, &full(vec![Box::new(SerdeImplGenerator)]))).unwrap();
        // definition facts the harness may know without looking at offsets
        let vs = structure(&d);
        let mut w = String::new();
        writeln!(w, "#[allow(dead_code, unused_variables, unused_mut, unused_assignments, non_snake_case, clippy::all)]").unwrap();
        writeln!(w, "pub mod {} {{", def.name).unwrap();
        writeln!(w, "    #[allow(dead_code, clippy::all)]").unwrap();
        writeln!(w, "    pub mod m {{ include!(concat!(env!(\"OUT_DIR\"), \"/{}.rs\")); }}", def.name).unwrap();
        for sel in ["default", "clone", "serde"] {
            writeln!(w, "    #[cfg(not(kani))] #[allow(dead_code, clippy::all)]").unwrap();
            writeln!(w, "    pub mod m_{sel} {{ include!(concat!(env!(\"OUT_DIR\"), \"/{}__{sel}.rs\")); }}", def.name).unwrap();
        }
        writeln!(w, "    use kgen_types::*;").unwrap();
        writeln!(w, "    use kgen_types::{{chk, reach}};").unwrap();
        writeln!(w, "    pub const DEFINITION_MAX_SIZE: usize = {};", d.max_size()).unwrap();
        writeln!(w, "    pub const DEFINITION_MAX_ALIGN: usize = {};", d.max_type_align()).unwrap();
        writeln!(w, "    pub const VARIANTS: usize = {};", vs.len()).unwrap();
        // C03b: constant facts
        // alignment the record types must honour: that of every datum *of a variant* (a datum added and removed
        // again before its close is never stored)
        writeln!(w, "    pub fn c03_layout<const CAP: usize>() {{").unwrap();
        // one fact per path (Kani's assert also assumes its condition: independent facts must not hide each other)
        writeln!(w, "        let sel = nd::u16();").unwrap();
        let mut k = 0usize;
        let mut fact = |w: &mut String, cond: String, label: &str| {
            writeln!(w, "        if sel == {k} {{ chk!({cond}, \"{label}\"); }}").unwrap();
            k += 1;
        };
        fact(&mut w, "m::MAX_SIZE == DEFINITION_MAX_SIZE".into(), "C02: published MAX_SIZE differs from the definition's capacity");
        for vi in 0..vs.len() {
            fact(&mut w, format!("core::mem::size_of::<m::CappedRecord{vi}<CAP>>() == core::mem::size_of::<m::CappedRecord0<CAP>>()"), "C03: record types of one definition differ in size");
            fact(&mut w, format!("core::mem::align_of::<m::CappedRecord{vi}<CAP>>() == core::mem::align_of::<m::CappedRecord0<CAP>>()"), "C03: record types of one definition differ in alignment");
            // "a multiple of the alignment of every datum of every variant": all variants' field types, for each record type
            let mut tys: Vec<&str> = vs.iter().flat_map(|v| v.fields.iter()).map(|f| f.ty.as_str()).collect();
            tys.sort();
            tys.dedup();
            for ty in tys {
                fact(&mut w, format!("core::mem::align_of::<m::CappedRecord{vi}<CAP>>() % core::mem::align_of::<{ty}>() == 0"), "C02: record alignment is not a multiple of every datum alignment");
            }
            fact(&mut w, format!("core::mem::size_of::<m::CappedRecord{vi}<CAP>>() >= CAP"), "C02: record type smaller than its capacity");
        }
        fact(&mut w, "core::mem::size_of::<m::RecordUninitialized<CAP>>() == core::mem::size_of::<m::CappedRecord0<CAP>>()".into(), "C03: RecordUninitialized differs in size from the records");
        fact(&mut w, "core::mem::align_of::<m::RecordUninitialized<CAP>>() == core::mem::align_of::<m::CappedRecord0<CAP>>()".into(), "C03: RecordUninitialized differs in alignment from the records");
        writeln!(w, "        reach!(\"end of layout harness\");").unwrap();
        writeln!(w, "    }}").unwrap();
        for (vi, v) in vs.iter().enumerate() {
            gen_c04(vi, v, l_writes, &mut w);
            gen_heap(vi, v, &mut w);
            gen_clone(vi, v, &mut w);
            gen_serde(vi, v, &mut w);
        }
        gen_chain(&vs, &code, &mut w);
        // proofs + dispatch
        writeln!(w, "    #[cfg(kani)]").unwrap();
        writeln!(w, "    mod proofs {{").unwrap();
        writeln!(w, "        use super::*;").unwrap();
        let caps = [("c0", "{ m::MAX_SIZE }"), ("c1", "{ m::MAX_SIZE + 1 }"), ("c16", "{ m::MAX_SIZE + 16 }")];
        let mut harnesses: Vec<(String, String, String)> = Vec::new(); // (name, call, kind)
        for (cn, cap, kms) in [("c0", caps[0].1, vec![0usize, 1]), ("c1", caps[1].1, vec![1]), ("c16", caps[2].1, vec![0])] {
            for vi in 0..vs.len() {
                for km in &kms {
                    harnesses.push((format!("{}__c04_v{}_{}_k{}", def.name, vi, cn, km), format!("c04_v{}::<{}>({})", vi, cap, km), "c04".into()));
                }
            }
            harnesses.push((format!("{}__chain_{}", def.name, cn), format!("chain::<{}>()", cap), "chain".into()));
            harnesses.push((format!("{}__layout_{}", def.name, cn), format!("c03_layout::<{}>()", cap), "layout".into()));
        }
        for vi in 0..vs.len() {
            harnesses.push((format!("{}__heap_v{}_c0", def.name, vi), format!("heap_v{}::<{{ m::MAX_SIZE }}>()", vi), "heap".into()));
        }
        for vi in 0..vs.len() {
            harnesses.push((format!("{}__c16_v{}_c0", def.name, vi), format!("c16_v{}::<{{ m::MAX_SIZE }}>()", vi), "clone".into()));
            harnesses.push((format!("{}__c15_v{}_c0", def.name, vi), format!("c15_v{}::<{{ m::MAX_SIZE }}>()", vi), "serde".into()));
        }
        let uw = std::cmp::max(kgen_types::MAXT + 2, d.max_size() + 16 + 2);
        for (n, call, _k) in &harnesses {
            writeln!(w, "        #[kani::proof] #[kani::unwind({uw})] #[kani::stub(alloc::fmt::format, crate::no_format)] fn {n}() {{ {call} }}").unwrap();
        }
        writeln!(w, "    }}").unwrap();
        for (n, call, k) in &harnesses {
            writeln!(index, "{}\t{}\t{}\t{}\t{}", def.name, def.tier, n, k, vs.len()).unwrap();
            writeln!(dispatch, "        \"{n}\" => {{ {d}::{call}; true }}", n = n, d = def.name, call = call.replace("m::", &format!("{}::m::", def.name))).unwrap();
        }
        writeln!(w, "}}").unwrap();
        all.push_str(&w);
        // definition text for the evidence
        let text = std::panic::catch_unwind(std::panic::AssertUnwindSafe(|| format!("{}", d)))
            .unwrap_or_else(|_| "<Display panicked on this definition>".to_string());
        fs::write(out_dir.join(format!("{}.def.txt", def.name)), text).unwrap();
    }
    writeln!(all, "pub fn run_by_name(name: &str) -> bool {{\n    match name {{\n{}        _ => false,\n    }}\n}}", dispatch).unwrap();
    fs::write(out_dir.join("harnesses.rs"), all).unwrap();
    fs::write(out_dir.join("index.tsv"), index).unwrap();
    // make the index easy to find for the driver
    if let Ok(p) = env::var("KGEN_INDEX_OUT") {
        let _ = fs::copy(out_dir.join("index.tsv"), &p);
        let _ = fs::write(format!("{}.outdir", p), out_dir.to_string_lossy().as_bytes());
    }
    println!("cargo:rerun-if-changed=build.rs");
    println!("cargo:rerun-if-env-changed=KGEN_WRITES");
    println!("cargo:rerun-if-env-changed=KGEN_SKIP");
    println!("cargo:rerun-if-env-changed=KGEN_INDEX_OUT");
    println!("cargo:rerun-if-changed=/repo/truc/src");
    println!("cargo:rerun-if-changed=/repo/truc_runtime/src");
}
