//! Field-type menu, value abstraction and drop ledger shared by the generator driver
//! (build.rs of the harness crate, which only needs the *types*) and the harnesses.
#![allow(static_mut_refs, dead_code)]

pub mod nd;

#[macro_export]
macro_rules! chk {
    ($cond:expr, $label:expr) => {{
        #[cfg(kani)]
        {
            assert!($cond, $label);
        }
        #[cfg(not(kani))]
        {
            if !($cond) {
                $crate::nd::fail($label);
            }
        }
    }};
}

#[macro_export]
macro_rules! reach {
    ($label:expr) => {{
        #[cfg(kani)]
        {
            kani::cover!(true, $label);
        }
        #[cfg(not(kani))]
        {
            $crate::nd::reached($label);
        }
    }};
}

// ------------------------------------------------------------------ ledger
pub const MAXT: usize = 32;
/// 0 = unused, 1 = live, 2 = dropped once, 3 = dropped more than once
pub static mut STATE: [u8; MAXT] = [0; MAXT];
pub static mut NEXT: usize = 0;

pub fn reset() {
    unsafe {
        STATE = [0; MAXT];
        NEXT = 0;
    }
}

/// Identities handed out dynamically (clones, decoded values) start here; the harnesses give
/// every value they create a *static* identity below it (one per creation site), so that ledger
/// indices stay concrete for the solver whatever branches were taken.
pub const DYN_BASE: usize = 24;

fn fresh_id() -> u8 {
    unsafe {
        let id = DYN_BASE + NEXT;
        NEXT += 1;
        if id < MAXT {
            STATE[id] = 1;
        }
        id as u8
    }
}

fn site_id(site: u8) -> u8 {
    unsafe {
        let i = site as usize;
        if i < DYN_BASE {
            chk!(STATE[i] == 0, "harness: creation site used twice");
            STATE[i] = 1;
        }
        site
    }
}

fn note_drop(id: u8) {
    unsafe {
        let i = id as usize;
        if i < MAXT {
            chk!(STATE[i] == 1, "C06: a stored value is destroyed although it is not live (destroyed twice, or never stored)");
            STATE[i] = if STATE[i] == 1 { 2 } else { 3 };
        } else {
            chk!(false, "C06: a value with an impossible identity is destroyed (storage read as a wrong type)");
        }
    }
}

pub fn is_live(id: u8) -> bool {
    unsafe { (id as usize) < MAXT && STATE[id as usize] == 1 }
}
pub fn is_dropped_once(id: u8) -> bool {
    unsafe { (id as usize) < MAXT && STATE[id as usize] == 2 }
}
/// Every value created so far has been destroyed exactly once.
pub fn all_dropped_once() -> bool {
    unsafe {
        let mut ok = true;
        let mut i = 0;
        while i < MAXT {
            if STATE[i] != 2 && STATE[i] != 0 {
                ok = false;
            }
            i += 1;
        }
        ok
    }
}
pub fn live_count() -> usize {
    unsafe {
        let mut n = 0;
        let mut i = 0;
        while i < MAXT {
            if STATE[i] == 1 {
                n += 1;
            }
            i += 1;
        }
        n
    }
}

// ------------------------------------------------------------------ value abstraction
/// What the harnesses need from a field type: an arbitrary value, an observable snapshot of
/// it, and (for droppable types) its ledger identity.
pub trait Val: Sized {
    type Snap: Copy + PartialEq;
    const DROPPABLE: bool;
    fn sym() -> Self;
    /// arbitrary value created at harness site `site` (static ledger identity for droppable types)
    fn sym_at(_site: u8) -> Self {
        Self::sym()
    }
    fn snap(&self) -> Self::Snap;
    /// equal observable value (identity excluded)
    fn same_value(a: &Self::Snap, b: &Self::Snap) -> bool;
    fn ident(_s: &Self::Snap) -> u8 {
        255
    }
}

macro_rules! pod_val {
    ($t:ty, $draw:expr) => {
        impl Val for $t {
            type Snap = $t;
            const DROPPABLE: bool = false;
            fn sym() -> Self {
                $draw
            }
            fn snap(&self) -> $t {
                *self
            }
            fn same_value(a: &$t, b: &$t) -> bool {
                a == b
            }
        }
    };
}
pod_val!(u8, nd::u8());
pod_val!(u16, nd::u16());
pod_val!(u32, nd::u32());
pod_val!(u64, nd::u64());
pod_val!([u8; 3], [nd::u8(), nd::u8(), nd::u8()]);

/// 12 bytes, align 4: size not a multiple of 8
#[repr(C)]
#[derive(Clone, Copy, PartialEq, Eq, Debug, serde::Serialize, serde::Deserialize)]
pub struct P12 {
    pub a: u32,
    pub b: u32,
    pub c: u32,
}
pod_val!(P12, P12 { a: nd::u32(), b: nd::u32(), c: nd::u32() });

/// 24 bytes, align 8
#[repr(C)]
#[derive(Clone, Copy, PartialEq, Eq, Debug, serde::Serialize, serde::Deserialize)]
pub struct P24 {
    pub a: u64,
    pub b: u64,
    pub c: u64,
}
pod_val!(P24, P24 { a: nd::u64(), b: nd::u64(), c: nd::u64() });

/// zero-size plain type
#[derive(Clone, Copy, PartialEq, Eq, Debug, serde::Serialize, serde::Deserialize)]
pub struct Zst;
pod_val!(Zst, Zst);

/// zero-size but 8-aligned
pub type ZstA8 = [u64; 0];
impl Val for ZstA8 {
    type Snap = ();
    const DROPPABLE: bool = false;
    fn sym() -> Self {
        []
    }
    fn snap(&self) {}
    fn same_value(_a: &(), _b: &()) -> bool {
        true
    }
}
pod_val!(Option<u32>, if nd::bool() { Some(nd::u32()) } else { None });

/// owned string slice: one of three fixed contents, chosen symbolically
pub const STRS: [&str; 3] = ["a", "bc", ""];
pub fn str_id(s: &str) -> u8 {
    if s == STRS[0] {
        0
    } else if s == STRS[1] {
        1
    } else if s == STRS[2] {
        2
    } else {
        255
    }
}
impl Val for Box<str> {
    type Snap = u8;
    const DROPPABLE: bool = false;
    fn sym() -> Self {
        let k = nd::u8();
        nd::assume(k < 3);
        Box::from(STRS[k as usize])
    }
    fn snap(&self) -> u8 {
        str_id(self)
    }
    fn same_value(a: &u8, b: &u8) -> bool {
        a == b
    }
}

/// over-aligned: 16 bytes, align 16
#[repr(C, align(16))]
#[derive(Clone, Copy, PartialEq, Eq, Debug, serde::Serialize, serde::Deserialize)]
pub struct Over16(pub u64);
pod_val!(Over16, Over16(nd::u64()));

/// Not `Send` (and not `Sync`): holds a raw pointer. Used by the C14 obligations only.
#[derive(Clone, Copy, Debug)]
pub struct NotSend(pub *const u8);
/// `Send` but not `Sync`.
#[derive(Clone, Debug)]
pub struct NotSync(pub std::cell::Cell<u8>);
macro_rules! no_serde {
    ($t:ty, $mk:expr) => {
        impl serde::Serialize for $t {
            fn serialize<S: serde::Serializer>(&self, s: S) -> Result<S::Ok, S::Error> {
                s.serialize_unit()
            }
        }
        impl<'de> serde::Deserialize<'de> for $t {
            fn deserialize<D: serde::Deserializer<'de>>(d: D) -> Result<Self, D::Error> {
                <()>::deserialize(d)?;
                Ok($mk)
            }
        }
    };
}
no_serde!(NotSend, NotSend(std::ptr::null()));
no_serde!(NotSync, NotSync(std::cell::Cell::new(0)));

/// Droppable value with a ledger identity; 8 bytes, align 4 (3 bytes of padding).
#[repr(C)]
#[derive(Debug)]
pub struct Tracked {
    pub val: u32,
    pub id: u8,
}
impl Tracked {
    pub fn new(val: u32) -> Self {
        Tracked { val, id: fresh_id() }
    }
}
impl Drop for Tracked {
    fn drop(&mut self) {
        note_drop(self.id);
    }
}
impl Clone for Tracked {
    fn clone(&self) -> Self {
        Tracked::new(self.val)
    }
}
impl Val for Tracked {
    type Snap = (u8, u32);
    const DROPPABLE: bool = true;
    fn sym() -> Self {
        Tracked::new(nd::u32())
    }
    fn sym_at(site: u8) -> Self {
        Tracked { val: nd::u32(), id: site_id(site) }
    }
    fn snap(&self) -> (u8, u32) {
        (self.id, self.val)
    }
    fn same_value(a: &(u8, u32), b: &(u8, u32)) -> bool {
        a.1 == b.1
    }
    fn ident(s: &(u8, u32)) -> u8 {
        s.0
    }
}

/// Droppable heap owner; 16 bytes, align 8.
#[derive(Debug)]
pub struct TrackedBox {
    pub b: Box<u16>,
    pub id: u8,
}
impl TrackedBox {
    pub fn new(val: u16) -> Self {
        TrackedBox { b: Box::new(val), id: fresh_id() }
    }
}
impl Drop for TrackedBox {
    fn drop(&mut self) {
        note_drop(self.id);
    }
}
impl Clone for TrackedBox {
    fn clone(&self) -> Self {
        TrackedBox::new(*self.b)
    }
}
impl Val for TrackedBox {
    type Snap = (u8, u16);
    const DROPPABLE: bool = true;
    fn sym() -> Self {
        TrackedBox::new(nd::u16())
    }
    fn sym_at(site: u8) -> Self {
        TrackedBox { b: Box::new(nd::u16()), id: site_id(site) }
    }
    fn snap(&self) -> (u8, u16) {
        (self.id, *self.b)
    }
    fn same_value(a: &(u8, u16), b: &(u8, u16)) -> bool {
        a.1 == b.1
    }
    fn ident(s: &(u8, u16)) -> u8 {
        s.0
    }
}

/// Droppable zero-size value (no identity: counted only).
pub static mut ZD_CREATED: usize = 0;
pub static mut ZD_DROPPED: usize = 0;
#[derive(Debug)]
pub struct ZstDrop;
impl ZstDrop {
    pub fn new() -> Self {
        unsafe {
            ZD_CREATED += 1;
        }
        ZstDrop
    }
}
impl Drop for ZstDrop {
    fn drop(&mut self) {
        unsafe {
            ZD_DROPPED += 1;
        }
    }
}
impl Clone for ZstDrop {
    fn clone(&self) -> Self {
        ZstDrop::new()
    }
}
impl Val for ZstDrop {
    type Snap = ();
    const DROPPABLE: bool = false; // no per-value identity
    fn sym() -> Self {
        ZstDrop::new()
    }
    fn snap(&self) {}
    fn same_value(_a: &(), _b: &()) -> bool {
        true
    }
}

// serde for the droppable types (value only; identity is fresh on decode)
impl serde::Serialize for Tracked {
    fn serialize<S: serde::Serializer>(&self, s: S) -> Result<S::Ok, S::Error> {
        s.serialize_u32(self.val)
    }
}
impl<'de> serde::Deserialize<'de> for Tracked {
    fn deserialize<D: serde::Deserializer<'de>>(d: D) -> Result<Self, D::Error> {
        let v = u32::deserialize(d)?;
        Ok(Tracked::new(v))
    }
}
impl serde::Serialize for TrackedBox {
    fn serialize<S: serde::Serializer>(&self, s: S) -> Result<S::Ok, S::Error> {
        s.serialize_u16(*self.b)
    }
}
impl<'de> serde::Deserialize<'de> for TrackedBox {
    fn deserialize<D: serde::Deserializer<'de>>(d: D) -> Result<Self, D::Error> {
        let v = u16::deserialize(d)?;
        Ok(TrackedBox::new(v))
    }
}
impl serde::Serialize for ZstDrop {
    fn serialize<S: serde::Serializer>(&self, s: S) -> Result<S::Ok, S::Error> {
        s.serialize_unit()
    }
}
impl<'de> serde::Deserialize<'de> for ZstDrop {
    fn deserialize<D: serde::Deserializer<'de>>(d: D) -> Result<Self, D::Error> {
        <()>::deserialize(d)?;
        Ok(ZstDrop::new())
    }
}

pub fn reset_all() {
    reset();
    unsafe {
        ZD_CREATED = 0;
        ZD_DROPPED = 0;
    }
}
