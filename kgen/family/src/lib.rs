//! The definition family shared by the kgen harness generator (build.rs) and the genobl tools.
use std::collections::BTreeMap;

use kgen_types::*;
use truc::record::{
    definition::{
        builder::native::{variant, NativeRecordDefinitionBuilder},
        DatumId, NativeDatumDetails, RecordDefinition,
    },
    type_resolver::HostTypeResolver,
};

#[derive(Clone, Copy, PartialEq, Eq, Debug)]
pub enum Ty {
    U8,
    U16,
    U32,
    U64,
    B3,
    P12,
    P24,
    Zst,
    Over16,
    Tracked,
    TBox,
    ZstDrop,
    NotSend,
    NotSync,
    ZstA8,
    OptU32,
    BoxStr,
    /// `Mutex<Cell<u32>>`: Send + Sync although it contains a Cell (C14 only)
    MutexCell,
    /// `fn(*const u8, usize) -> usize`: Send + Sync although a raw pointer appears in it (C14 only)
    FnPtr,
}

#[derive(Clone, Copy, Debug)]
pub enum Strat {
    Simple,
    Basic,
    Append,
    AppendRev,
}

#[derive(Clone, Debug)]
pub enum Step {
    /// add a mandatory field
    Add(&'static str, Ty),
    /// add a field that may stay uninitialised (Copy types only)
    AddU(&'static str, Ty),
    Rm(&'static str),
    /// add a field and remove it again before the variant is closed
    AddRm(&'static str, Ty),
    Close(Strat),
}
pub use Step::*;

pub struct Def {
    pub name: &'static str,
    pub tier: &'static str,
    pub steps: Vec<Step>,
}

pub fn family() -> Vec<Def> {
    use Strat::*;
    use Ty::*;
    let mut f = vec![
        // all plain data, three variants, removal + reuse of bytes by another type
        Def {
            name: "pod3",
            tier: "quick",
            steps: vec![
                Add("a", U32), AddU("b", U8), Add("c", U64), Close(Simple),
                Rm("a"), Add("d", U16), AddU("e", U16), Close(Simple),
                Rm("c"), Add("f", P12), Close(Simple),
            ],
        },
        // droppable + plain data, removed droppable bytes reused by an added field
        Def {
            name: "drop3",
            tier: "quick",
            steps: vec![
                Add("t", Tracked), AddU("n", U32), Add("h", TBox), Close(Simple),
                Rm("t"), Add("u", Tracked), Add("w", U64), Close(Simple),
                Rm("h"), Rm("n"), Add("k", TBox), AddU("z", U8), Close(Simple),
            ],
        },
        // odd sizes, zero-size and over-aligned types
        Def {
            name: "odd",
            tier: "quick",
            steps: vec![
                Add("x", B3), Add("z", Zst), Add("o", Over16), AddU("p", P12), Close(Simple),
                Rm("x"), Add("y", B3), Add("q", U8), Add("zd", ZstDrop), Close(Simple),
                Rm("o"), Add("r", P24), Close(Simple),
            ],
        },
        // empty first variant, a variant made only of removals, a variant of may-be-uninit fields only
        Def {
            name: "shapes",
            tier: "quick",
            steps: vec![
                Close(Simple),
                AddU("a", U32), AddU("b", U16), Close(Simple),
                Add("t", Tracked), Close(Simple),
                Rm("a"), Rm("t"), Close(Simple),
            ],
        },
        // basic strategy with holes
        Def {
            name: "basic3",
            tier: "quick",
            steps: vec![
                Add("a", U8), Add("b", U64), Add("t", Tracked), Add("c", U16), Close(Basic),
                Rm("b"), Add("d", U32), AddU("e", U32), Close(Basic),
                Rm("t"), Add("f", P12), Add("g", Tracked), Close(Basic),
            ],
        },
        // append strategies
        Def {
            name: "append3",
            tier: "quick",
            steps: vec![
                Add("a", U8), Add("t", Tracked), Add("b", U64), Close(Append),
                Rm("t"), Add("c", U16), Add("u", TBox), Close(AppendRev),
                Rm("a"), Add("d", B3), Close(Append),
            ],
        },
        // strategy mixture over four variants
        Def {
            name: "mix4",
            tier: "quick",
            steps: vec![
                Add("a", U16), Add("t", Tracked), Add("b", U64), Close(Simple),
                Rm("b"), Add("c", U8), AddU("d", U32), Close(Basic),
                Rm("t"), Add("e", TBox), Close(Append),
                Rm("a"), Rm("c"), Add("f", U32), Add("g", Tracked), Close(Simple),
            ],
        },
        // removed bytes re-used by added fields whose size is larger than their alignment, followed by more additions
        Def {
            name: "reuse",
            tier: "quick",
            steps: vec![
                Add("a", P24), Add("b", U64), Add("t", U16), Close(Simple),
                Rm("a"), Rm("b"), Add("c", P12), Add("d", U32), Add("e", Tracked), Close(Simple),
                Rm("c"), Add("f", B3), Add("g", P12), AddU("h", U16), Close(Simple),
            ],
        },
        // zero-size field at the very end of the largest variant (offset == capacity); over-aligned zero-size field
        Def {
            name: "zend",
            tier: "quick",
            steps: vec![
                Add("a", U32), Add("m", Zst), Close(Simple),
                Add("w", ZstA8), Close(Simple),
                Rm("a"), Add("b", U16), Close(Simple),
            ],
        },
        // a later variant keeps mandatory droppable fields and adds only may-be-uninit ones; then removes them
        Def {
            name: "keepuninit",
            tier: "quick",
            steps: vec![
                Add("s", Tracked), Add("h", TBox), Close(Simple),
                AddU("c", U32), AddU("d", U8), Close(Simple),
                Rm("c"), Close(Simple),
            ],
        },
        // fields added and removed again before their variant is closed (sized and zero-size), followed by later additions
        Def {
            name: "pending",
            tier: "quick",
            steps: vec![
                Add("a", U32), AddRm("tmp", U64), Add("b", U16), Close(Simple),
                AddRm("tmz", Zst), Add("n", P24), Add("t", Tracked), Close(Simple),
                Rm("a"), AddRm("tmq", TBox), Add("c", U8), Close(Basic),
            ],
        },
        // a never-placed field that is more aligned than every placed one
        Def {
            name: "pendalign",
            tier: "quick",
            steps: vec![
                Add("a", U32), AddRm("big", Over16), Add("b", U16), Close(Simple),
                Add("c", U8), AddRm("huge", P24), Close(Simple),
            ],
        },
        // several zero-size fields (one droppable) added by one conversion next to a sized one
        Def {
            name: "zst2",
            tier: "quick",
            steps: vec![
                Add("a", U32), Close(Simple),
                Add("k", ZstDrop), Add("m", Zst), Add("n", U64), Close(Simple),
                Rm("a"), Add("j", ZstDrop), Add("w", ZstA8), Close(Simple),
            ],
        },
        // a hole whose end is not aligned for the data added into it, filled by several additions of one conversion
        Def {
            name: "endgap",
            tier: "quick",
            steps: vec![
                Add("a", U64), Add("b", U32), Add("c", U16), Add("d", U8), Add("e", U8), Close(Simple),
                Rm("b"), Rm("c"), Rm("d"), Add("p", U16), Add("q", U16), Add("r", U16), Add("s", U16), Close(Simple),
                Rm("e"), Add("t", B3), Add("u", U16), Add("v", U8), Close(Simple),
            ],
        },
        // a droppable field lying in memory between two may-be-uninit fields that are neighbours in declaration order
        Def {
            name: "interleave",
            tier: "quick",
            steps: vec![
                Add("tag", Tracked), AddU("wide", P24), AddU("small", U32), Close(Simple),
                AddU("x", U64), Add("y", TBox), AddU("z", U8), Close(Simple),
                Rm("wide"), Add("v", Tracked), AddU("q", U16), Close(Simple),
            ],
        },
        // owned strings
        Def {
            name: "strs",
            tier: "quick",
            steps: vec![
                Add("a", U32), Add("s", BoxStr), Close(Simple),
                Rm("a"), Add("t", BoxStr), AddU("n", U16), Close(Simple),
            ],
        },
        // optional values, the last fields being optional
        Def {
            name: "opt",
            tier: "quick",
            steps: vec![
                Add("a", U32), AddU("o", OptU32), Close(Simple),
                Add("t", Tracked), Add("p", OptU32), Close(Simple),
            ],
        },
        // same name re-used by a field of another type in the same close (remove + add)
        Def {
            name: "rename",
            tier: "quick",
            steps: vec![
                Add("v", Tracked), Add("w", U32), Close(Simple),
                Rm("v"), Add("v", TBox), Close(Simple),
                Rm("w"), Add("w", U64), Close(Simple),
            ],
        },
    ];
    // thorough: the same histories under each other strategy, and a few more shapes
    let thorough_src: Vec<(&'static str, Vec<Step>)> = f
        .iter()
        .filter(|d| ["pod3", "drop3", "odd", "rename"].contains(&d.name))
        .map(|d| (d.name, d.steps.clone()))
        .collect();
    for (name, steps) in thorough_src {
        for (sname, s) in [("basic", Basic), ("append", Append), ("apprev", AppendRev)] {
            let steps = steps
                .iter()
                .map(|st| match st {
                    Close(_) => Close(s),
                    o => o.clone(),
                })
                .collect();
            let n: &'static str = Box::leak(format!("{}_{}", name, sname).into_boxed_str());
            f.push(Def { name: n, tier: "thorough", steps });
        }
    }
    // C14 only (never given to the Kani harnesses: tier "genobl")
    f.push(Def {
        name: "threads",
        tier: "genobl",
        steps: vec![
            Add("a", U32), Add("p", NotSend), Close(Simple),
            Rm("p"), Add("c", NotSync), Close(Simple),
            Rm("c"), Add("t", Tracked), Close(Simple),
            Rm("t"), Add("mc", MutexCell), Add("fp", FnPtr), Close(Simple),
        ],
    });
    // a variant wider than serde's largest tuple (16): generator decisions that depend on the number of fields.
    // tier "quick-serde": in the quick tier only its serde harnesses run; every kind in the thorough tier.
    f.push(Def {
        name: "wide17",
        tier: "quick-serde",
        steps: vec![
            Add("a", U8), Add("b", U16), Add("s", BoxStr), Close(Simple),
            Rm("b"),
            Add("f01", U8), Add("f02", U8), Add("f03", U8), Add("f04", U8), Add("f05", U8), Add("f06", U8), Add("f07", U8),
            Add("f08", U8), Add("f09", U8), Add("f10", U8), Add("f11", U8), Add("f12", U8), Add("f13", U8), Add("f14", U8),
            Add("t", Tracked), Close(Simple),
        ],
    });
    f.push(Def {
        name: "wide",
        tier: "thorough",
        steps: vec![
            Add("a", U8), Add("b", Tracked), Add("c", U16), Add("d", TBox), Add("e", B3), Add("f", Over16), Close(Simple),
            Rm("b"), Rm("e"), Add("g", P24), Add("h", Tracked), AddU("i", U64), Close(Simple),
            Rm("f"), Rm("a"), Add("j", P12), Add("k", ZstDrop), Close(Basic),
            Rm("d"), Add("l", U32), Close(Simple),
        ],
    });
    f
}

fn add<R: truc::record::type_resolver::TypeResolver>(
    b: &mut NativeRecordDefinitionBuilder<R>,
    name: &str,
    ty: Ty,
    uninit: bool,
) -> DatumId {
    macro_rules! go {
        ($t:ty) => {
            if uninit {
                b.add_datum_allow_uninit::<$t, _>(name)
            } else {
                b.add_datum::<$t, _>(name)
            }
        };
    }
    match ty {
        Ty::U8 => go!(u8),
        Ty::U16 => go!(u16),
        Ty::U32 => go!(u32),
        Ty::U64 => go!(u64),
        Ty::B3 => go!([u8; 3]),
        Ty::P12 => go!(P12),
        Ty::P24 => go!(P24),
        Ty::Zst => go!(Zst),
        Ty::Over16 => go!(Over16),
        Ty::Tracked => {
            assert!(!uninit);
            b.add_datum::<Tracked, _>(name)
        }
        Ty::TBox => {
            assert!(!uninit);
            b.add_datum::<TrackedBox, _>(name)
        }
        Ty::ZstDrop => {
            assert!(!uninit);
            b.add_datum::<ZstDrop, _>(name)
        }
        Ty::ZstA8 => go!(ZstA8),
        Ty::OptU32 => go!(Option<u32>),
        Ty::BoxStr => {
            assert!(!uninit);
            b.add_datum::<Box<str>, _>(name)
        }
        Ty::MutexCell => named::<std::sync::Mutex<std::cell::Cell<u32>>, R>(b, name, "std::sync::Mutex<std::cell::Cell<u32>>"),
        Ty::FnPtr => named::<fn(*const u8, usize) -> usize, R>(b, name, "fn(*const u8, usize) -> usize"),
        Ty::NotSend => {
            assert!(!uninit);
            b.add_datum::<NotSend, _>(name)
        }
        Ty::NotSync => {
            assert!(!uninit);
            b.add_datum::<NotSync, _>(name)
        }
    }
    .unwrap_or_else(|e| panic!("add {}: {}", name, e))
}

/// A deliberately wrong piece of recorded type information for one datum (C11 twins).
#[derive(Clone, Debug)]
pub enum Perturb {
    Size(usize),
    Align(usize),
    Uninit,
}

/// Types whose compiler-given name is not nameable from user code: recorded under an explicit name.
fn named<T, R: truc::record::type_resolver::TypeResolver>(b: &mut NativeRecordDefinitionBuilder<R>, name: &str, type_name: &str) -> Result<DatumId, String> {
    use truc::record::definition::builder::native::DatumDefinitionOverride;
    b.add_datum_override::<T, _>(name, DatumDefinitionOverride { type_name: Some(type_name.to_string()), size: None, align: None, allow_uninit: None })
}

fn add_perturbed<R: truc::record::type_resolver::TypeResolver>(
    b: &mut NativeRecordDefinitionBuilder<R>,
    name: &str,
    ty: Ty,
    uninit: bool,
    what: &Perturb,
) -> DatumId {
    use truc::record::definition::builder::native::DatumDefinitionOverride;
    let ov = DatumDefinitionOverride {
        type_name: None,
        size: if let Perturb::Size(s) = what { Some(*s) } else { None },
        align: if let Perturb::Align(a) = what { Some(*a) } else { None },
        allow_uninit: Some(uninit || matches!(what, Perturb::Uninit)),
    };
    macro_rules! go {
        ($t:ty) => {
            b.add_datum_override::<$t, _>(name, ov)
        };
    }
    match ty {
        Ty::U8 => go!(u8),
        Ty::U16 => go!(u16),
        Ty::U32 => go!(u32),
        Ty::U64 => go!(u64),
        Ty::B3 => go!([u8; 3]),
        Ty::P12 => go!(P12),
        Ty::P24 => go!(P24),
        Ty::Zst => go!(Zst),
        Ty::Over16 => go!(Over16),
        Ty::Tracked => go!(Tracked),
        Ty::TBox => go!(TrackedBox),
        Ty::ZstDrop => go!(ZstDrop),
        Ty::NotSend => go!(NotSend),
        Ty::NotSync => go!(NotSync),
        Ty::ZstA8 => go!(ZstA8),
        Ty::OptU32 => go!(Option<u32>),
        Ty::BoxStr => go!(Box<str>),
        Ty::MutexCell | Ty::FnPtr => panic!("no twins for the C14-only types"),
    }
    .unwrap_or_else(|e| panic!("add {}: {}", name, e))
}

pub fn build(def: &Def) -> RecordDefinition<NativeDatumDetails> {
    build_with(def, None)
}

/// Builds the definition; `perturb` = (datum name, occurrence index among additions of that name, what).
pub fn build_with(def: &Def, perturb: Option<(&str, usize, Perturb)>) -> RecordDefinition<NativeDatumDetails> {
    let mut b = NativeRecordDefinitionBuilder::new(HostTypeResolver);
    let mut ids: BTreeMap<&str, DatumId> = BTreeMap::new();
    let mut seen: BTreeMap<&str, usize> = BTreeMap::new();
    for st in &def.steps {
        match st {
            Add(n, t) | AddU(n, t) => {
                let uninit = matches!(st, AddU(..));
                let occ = *seen.get(n).unwrap_or(&0);
                seen.insert(n, occ + 1);
                let id = match &perturb {
                    Some((pn, pocc, what)) if pn == n && *pocc == occ => add_perturbed(&mut b, n, *t, uninit, what),
                    _ => add(&mut b, n, *t, uninit),
                };
                ids.insert(n, id);
            }
            Rm(n) => b.remove_datum(ids[n]).unwrap_or_else(|e| panic!("rm {}: {}", n, e)),
            AddRm(n, t) => {
                let occ = *seen.get(n).unwrap_or(&0);
                seen.insert(n, occ + 1);
                let id = match &perturb {
                    Some((pn, pocc, what)) if pn == n && *pocc == occ => add_perturbed(&mut b, n, *t, false, what),
                    _ => add(&mut b, n, *t, false),
                };
                b.remove_datum(id).unwrap_or_else(|e| panic!("rm pending {}: {}", n, e));
            }
            Close(s) => {
                match s {
                    Strat::Simple => b.close_record_variant_with(variant::simple),
                    Strat::Basic => b.close_record_variant_with(variant::basic),
                    Strat::Append => b.close_record_variant_with(variant::append_data),
                    Strat::AppendRev => b.close_record_variant_with(variant::append_data_reverse),
                };
            }
        }
    }
    b.build()
}

